"""Result of one checked case and the per-shard collector (collect, classify, then shrink)."""
import collections
import hashlib

from .env import jcanon


class Result:
    """What a property's check(case) returns.

    viol       list of (signature, detail) — recorded, never raised
    labels     list of str — classification of the case (measured generator distribution)
    nontrivial bool — by the property's stated rule
    excluded   list of known-finding ids whose predicate kept (part of) the case from running
    steps      number of API steps executed (histories) — 0 otherwise
    sample     compact, JSON-able description of the case for the evidence file
    """
    __slots__ = ('viol', 'labels', 'nontrivial', 'excluded', 'steps', 'sample', 'skipped')

    def __init__(self):
        self.viol = []
        self.labels = []
        self.nontrivial = False
        self.excluded = []
        self.steps = 0
        self.sample = None
        self.skipped = False      # case not executed at all (excluded by a known finding)

    def v(self, sig, detail=None):
        self.viol.append((sig, detail))

    def label(self, *names):
        self.labels.extend(names)


def case_hash(case):
    return int.from_bytes(hashlib.blake2b(jcanon(case).encode(), digest_size=8).digest(), 'big')


class Collector:
    MAX_SAMPLES = 4

    def __init__(self):
        self.evaluations = 0
        self.executed = 0
        self.steps = 0
        self.labels = collections.Counter()
        self.nt_hashes = set()
        self.samples = []
        self.excluded = collections.Counter()
        self.viol = {}          # sig -> dict(count, case, detail, stream, shard_seed, n)
        self.streams = collections.Counter()

    def add(self, case, res, stream, shard_seed, n):
        self.evaluations += 1
        self.streams[stream] += 1
        if res.skipped:
            for e in res.excluded:
                self.excluded[e] += 1
            return
        self.executed += 1
        self.steps += res.steps
        for l in res.labels:
            self.labels[l] += 1
        for e in res.excluded:
            self.excluded[e] += 1
        if res.nontrivial:
            h = case_hash(case)
            if h not in self.nt_hashes:
                self.nt_hashes.add(h)
                if len(self.samples) < self.MAX_SAMPLES:
                    self.samples.append(res.sample if res.sample is not None else case)
        for sig, detail in res.viol:
            e = self.viol.get(sig)
            size = len(jcanon(case))
            if e is None:
                self.viol[sig] = dict(count=1, case=case, detail=detail, stream=stream,
                                      shard_seed=shard_seed, n=n, size=size)
            else:
                e['count'] += 1
                if size < e['size']:
                    e.update(case=case, detail=detail, stream=stream, shard_seed=shard_seed, n=n, size=size)

    def merge(self, o):
        self.evaluations += o.evaluations
        self.executed += o.executed
        self.steps += o.steps
        self.labels.update(o.labels)
        self.nt_hashes |= o.nt_hashes
        for s in o.samples:
            if len(self.samples) < self.MAX_SAMPLES + 2:
                self.samples.append(s)
        self.excluded.update(o.excluded)
        self.streams.update(o.streams)
        for sig, e in o.viol.items():
            m = self.viol.get(sig)
            if m is None:
                self.viol[sig] = dict(e)
            else:
                c = m['count'] + e['count']
                if e['size'] < m['size']:
                    m.update(e)
                m['count'] = c
