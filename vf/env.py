"""Shared environment: repo import guard, controlled clock, seeds, sharding, paths.

Every check imports pjplan from $VERIF_REPO/src (default /repo/src), i.e. from the
current working tree; there is no build step.  Harness errors exit 2.
"""
import datetime as _dt
import json
import os
import sys

VERIF_DIR = os.path.dirname(os.path.dirname(os.path.abspath(__file__)))
REPO = os.environ.get('VERIF_REPO', '/repo')
SEED = int(os.environ.get('VERIF_SEED', '1') or '1')
NPROC = int(os.environ.get('VERIF_PROCS', '16'))


class HarnessError(Exception):
    """Raised for problems of the machinery itself (exit code 2, never VIOLATION)."""


def import_pjplan():
    src = os.path.join(REPO, 'src')
    if not os.path.isdir(os.path.join(src, 'pjplan')):
        raise HarnessError('no pjplan package under %s' % src)
    if sys.path[0] != src:
        sys.path.insert(0, src)
    import pjplan
    where = os.path.realpath(pjplan.__file__)
    if not where.startswith(os.path.realpath(src) + os.sep):
        raise HarnessError('pjplan imported from %s, expected under %s' % (where, src))
    return pjplan


# --------------------------------------------------------------------------- clock

class _Meta(type(_dt.datetime)):
    def __instancecheck__(cls, inst):
        return isinstance(inst, _dt.datetime)


class FakeDT(_dt.datetime, metaclass=_Meta):
    """datetime subclass with a fixed now(); bound to the name `datetime` inside the
    pjplan modules that read the clock."""
    _now = _dt.datetime(2020, 1, 1)

    @classmethod
    def now(cls, tz=None):
        return cls._now


_CLOCK_MODULES = ('pjplan.schedule', 'pjplan.viz.mermaid.gantt', 'pjplan.viz.dhtmlx.gantt')


def set_clock(now):
    """Make every clock read inside pjplan return `now` (a plain datetime)."""
    import importlib
    FakeDT._now = now
    for name in _CLOCK_MODULES:
        m = importlib.import_module(name)
        if not hasattr(m, 'datetime'):
            raise HarnessError('%s no longer exposes the name datetime; clock cannot be controlled' % name)
        m.datetime = FakeDT


def plain(d):
    """Normalise FakeDT instances (created inside pjplan) to plain datetimes."""
    if d is None:
        return None
    return _dt.datetime(d.year, d.month, d.day, d.hour, d.minute, d.second, d.microsecond)


# --------------------------------------------------------------------------- json helpers

def jdefault(o):
    if isinstance(o, _dt.datetime):
        return o.isoformat()
    if isinstance(o, (set, frozenset)):
        return sorted(o, key=repr)
    if isinstance(o, tuple):
        return list(o)
    try:
        from fractions import Fraction
        if isinstance(o, Fraction):
            return float(o)
    except Exception:
        pass
    return repr(o)


def jdump(obj, path):
    tmp = path + '.tmp%d' % os.getpid()
    os.makedirs(os.path.dirname(path), exist_ok=True)
    with open(tmp, 'w') as f:
        json.dump(obj, f, indent=1, default=jdefault, sort_keys=False)
        f.write('\n')
    os.replace(tmp, path)


def jcanon(obj):
    return json.dumps(obj, default=jdefault, sort_keys=True, separators=(',', ':'))


def dt(s):
    """Parse an ISO string from a case (None passes through; datetimes pass through)."""
    if s is None or isinstance(s, _dt.datetime):
        return s
    return _dt.datetime.fromisoformat(s)
