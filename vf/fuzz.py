"""Coverage-guided sub-run (thorough tier only): atheris / libFuzzer drives the same Hypothesis strategy and
the same check through `fuzz_one_input`, with pjplan instrumented for coverage feedback.

    python -m vf.fuzz <ID> <stream> --runs N --seed S --out DIR

Writes DIR/result-<seed>.json = {executions, violations: {sig: {count, case, detail}}, nontrivial, error}.
A violation is recorded (first / smallest case per signature) and the run goes on, so a shallow finding
does not end the campaign.  libFuzzer leaves through os._exit, so the result file is rewritten periodically
and at the end via the atexit-free path below.
"""
import importlib
import json
import os
import sys
import time


def main():
    argv = sys.argv[1:]
    prop, stream_name = argv[0], argv[1]
    runs, seed, out = 2000, 1, '.'
    i = 2
    while i < len(argv):
        if argv[i] == '--runs':
            runs = int(argv[i + 1])
        elif argv[i] == '--seed':
            seed = int(argv[i + 1])
        elif argv[i] == '--out':
            out = argv[i + 1]
        i += 2
    res_path = os.path.join(out, 'result-%d.json' % seed)
    state = dict(executions=0, nontrivial=0, violations={}, error=None, started=time.time())

    def dump():
        from .env import jdump
        jdump(dict(state, wall_s=round(time.time() - state['started'], 1)), res_path)

    try:
        import atheris
    except Exception as e:
        state['error'] = 'atheris unavailable: %r' % (e,)
        dump()
        return 0
    from . import env
    src = os.path.join(env.REPO, 'src')
    sys.path.insert(0, src)
    with atheris.instrument_imports(include=['pjplan']):
        import pjplan  # noqa
    env.import_pjplan()
    mod = importlib.import_module('vf.props.%s' % prop.lower())
    stream = [s for s in mod.streams('thorough') if s.name == stream_name][0]
    from hypothesis import given, settings, HealthCheck
    from .env import jcanon

    @settings(deadline=None, database=None, suppress_health_check=list(HealthCheck), max_examples=1)
    @given(stream.strategy())
    def t(case):
        from .runner import guarded, PROP_ID
        PROP_ID[0] = mod.ID
        r = guarded(stream.check, case)
        state['executions'] += 1
        if r.nontrivial:
            state['nontrivial'] += 1
        for sig, detail in r.viol:
            e = state['violations'].get(sig)
            size = len(jcanon(case))
            if e is None or size < e['size']:
                state['violations'][sig] = dict(count=(e['count'] + 1 if e else 1), case=case, detail=detail, size=size)
            else:
                e['count'] += 1
        if state['executions'] % 500 == 0:
            dump()

    corpus = os.path.join(out, 'corpus-%d' % seed)
    os.makedirs(corpus, exist_ok=True)

    import random
    rnd = random.Random(seed)
    for k in range(24):                 # seed corpus: random choice sequences long enough to build whole cases
        with open(os.path.join(corpus, 'seed-%02d' % k), 'wb') as f:
            f.write(rnd.randbytes(rnd.choice([256, 1024, 4096])))
    calls = {'n': 0}

    def one(data):
        calls['n'] += 1
        try:
            t.hypothesis.fuzz_one_input(data)
        except Exception as e:          # harness problem, not a finding: remember and go on
            state['error'] = repr(e)[:300]
        if calls['n'] >= runs - 1 or calls['n'] % 2000 == 0:
            state['inputs'] = calls['n']
            dump()

    args = [sys.argv[0], '-runs=%d' % runs, '-seed=%d' % seed, '-max_len=4096', '-print_final_stats=0', '-verbosity=0', corpus]
    atheris.Setup(args, one)
    import atexit
    atexit.register(dump)
    try:
        atheris.Fuzz()
    finally:
        dump()


if __name__ == '__main__':
    main()
