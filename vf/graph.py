"""Reference model of the task graph: abstract state, invariant checkers (C01, C05, C11) and
the documented effect of every public mutator (C16).  Written from the property statements,
not from task.py.  Tasks are indexes 0..n-1 into a universe; WBSs are indexes 0..W-1.
"""
import itertools


class G:
    """Abstract graph state.  Everything is plain lists of small ints (or None)."""
    __slots__ = ('ids', 'parent', 'children', 'preds', 'succs', 'roots', 'owner', 'alien')

    def __init__(self, ids, nw):
        n = len(ids)
        self.ids = list(ids)
        self.parent = [None] * n
        self.children = [[] for _ in range(n)]
        self.preds = [[] for _ in range(n)]
        self.succs = [[] for _ in range(n)]
        self.roots = [[] for _ in range(nw)]
        self.owner = [None] * n          # what Task.wbs reports (only meaningful for real snapshots)
        self.alien = []                  # type names of non-task objects met in relation lists (real snapshots)

    @property
    def n(self):
        return len(self.ids)

    def copy(self):
        g = G.__new__(G)
        g.ids = list(self.ids)
        g.parent = list(self.parent)
        g.children = [list(c) for c in self.children]
        g.preds = [list(c) for c in self.preds]
        g.succs = [list(c) for c in self.succs]
        g.roots = [list(c) for c in self.roots]
        g.owner = list(self.owner)
        g.alien = []
        return g

    def add_task(self, tid):
        self.ids.append(tid)
        self.parent.append(None)
        self.children.append([])
        self.preds.append([])
        self.succs.append([])
        self.owner.append(None)
        return len(self.ids) - 1

    # ---- structure (cycle-safe: a broken real state must not hang the checker)
    def key(self):
        """Structural part, successor lists as sets (mirror order is not asserted)."""
        return (tuple(self.parent), tuple(map(tuple, self.children)), tuple(map(tuple, self.preds)),
                tuple(tuple(sorted(s)) for s in self.succs), tuple(map(tuple, self.roots)))

    def full_key(self):
        """Everything observable incl. successor order and owner pointers (C15 compares this)."""
        return (tuple(self.parent), tuple(map(tuple, self.children)), tuple(map(tuple, self.preds)),
                tuple(map(tuple, self.succs)), tuple(map(tuple, self.roots)), tuple(self.owner))

    def ancestors(self, k):
        """List of ancestors bottom-up, or None when the parent chain loops."""
        out = []
        cur = self.parent[k]
        while cur is not None:
            if cur == k or cur in out:
                return None
            out.append(cur)
            cur = self.parent[cur]
        return out

    def subtree(self, k):
        """k and all its descendants in depth-first order (visited-set guarded)."""
        out, seen = [], set()

        def rec(x):
            if x in seen:
                return
            seen.add(x)
            out.append(x)
            for c in self.children[x]:
                rec(c)
        rec(k)
        return out

    def top(self, k):
        a = self.ancestors(k)
        return (a[-1] if a else k) if a is not None else k

    def wbs_of(self, k):
        """index of the WBS from whose roots k is reachable (by parent chain), else None"""
        t = self.top(k)
        for w, r in enumerate(self.roots):
            if t in r:
                return w
        return None

    def members(self, w):
        out = []
        seen = set()
        for r in self.roots[w]:
            for x in self.subtree(r):
                if x not in seen:
                    seen.add(x)
                    out.append(x)
        return out

    def container(self, k):
        """('t', p) / ('w', w) / None — where k is listed according to parent pointer + root lists"""
        if self.parent[k] is not None:
            return ('t', self.parent[k])
        for w, r in enumerate(self.roots):
            if k in r:
                return ('w', w)
        return None

    def clist(self, ref):
        return self.children[ref[1]] if ref[0] == 't' else self.roots[ref[1]]

    # ---- primitive edits used by the effect functions
    def detach(self, k):
        c = self.container(k)
        if c is not None:
            lst = self.clist(c)
            while k in lst:
                lst.remove(k)
        self.parent[k] = None

    def attach(self, k, ref, pos=None):
        self.detach(k)
        lst = self.clist(ref)
        if pos is None:
            lst.append(k)
        else:
            lst.insert(pos, k)
        self.parent[k] = ref[1] if ref[0] == 't' else None

    def set_preds(self, t, seq):
        for p in self.preds[t]:
            while t in self.succs[p]:
                self.succs[p].remove(t)
        self.preds[t] = list(seq)
        for p in seq:
            if t not in self.succs[p]:
                self.succs[p].append(t)

    def set_succs(self, t, seq):
        for s in self.succs[t]:
            while t in self.preds[s]:
                self.preds[s].remove(t)
        self.succs[t] = list(seq)
        for s in seq:
            if t not in self.preds[s]:
                self.preds[s].append(t)

    def dfs_order(self, w):
        out = []
        for r in self.roots[w]:
            out += self.subtree(r)
        return out


# ------------------------------------------------------------------------------ invariants

def invariants(g, with_owner=True):
    """Return the list of violated clauses as strings 'Cxx:clause'.  Cycle-safe."""
    v = []
    n = g.n
    # --- C01 (a): listed exactly once among the children of exactly the task it reports as parent
    listed = [[] for _ in range(n)]          # where each task is listed: ('t',p) / ('w',w), with multiplicity
    for p in range(n):
        for c in g.children[p]:
            listed[c].append(('t', p))
    for w, r in enumerate(g.roots):
        for c in r:
            listed[c].append(('w', w))
    for k in range(n):
        p = g.parent[k]
        want = ('t', p) if p is not None else None
        tl = [x for x in listed[k] if x[0] == 't']
        wl = [x for x in listed[k] if x[0] == 'w']
        if want is not None:
            c = tl.count(want)
            if c == 0:
                v.append('C01:child-not-listed-by-its-parent')
            elif c > 1:
                v.append('C01:child-listed-twice')
            if len(tl) > c:
                v.append('C01:listed-by-a-task-that-is-not-its-parent')
            if wl:
                v.append('C01:task-with-parent-listed-as-wbs-root')
        else:
            if tl:
                v.append('C01:listed-by-a-task-but-reports-no-parent')
            if len(wl) > 1:
                v.append('C01:root-listed-more-than-once')
    # --- C01 (b): no task is its own ancestor
    anc = {}
    loop = False
    for k in range(n):
        a = g.ancestors(k)
        if a is None:
            loop = True
        anc[k] = a
    if loop:
        v.append('C01:task-is-its-own-ancestor')
        return sorted(set(v))      # everything below walks the hierarchy
    # --- C01 (c): symmetry (as sets)
    for a in range(n):
        for b in set(g.preds[a]):
            if a not in g.succs[b]:
                v.append('C01:predecessor-without-mirror-successor')
        for b in set(g.succs[a]):
            if a not in g.preds[b]:
                v.append('C01:successor-without-mirror-predecessor')
    # --- C01 (d): no self link, no cycle
    for a in range(n):
        if a in g.preds[a] or a in g.succs[a]:
            v.append('C01:self-link')
    color = {}

    def cyc(x):
        stack = [(x, iter(set(g.preds[x])))]
        color[x] = 1
        while stack:
            node, it = stack[-1]
            for y in it:
                if color.get(y) == 1:
                    return True
                if y not in color:
                    color[y] = 1
                    stack.append((y, iter(set(g.preds[y]))))
                    break
            else:
                color[node] = 2
                stack.pop()
        return False
    for k in range(n):
        if k not in color and cyc(k):
            v.append('C01:dependency-cycle')
            break
    # --- C01 (e): no link between ancestor and descendant
    for a in range(n):
        for b in set(g.preds[a]) | set(g.succs[a]):
            if b != a and (b in anc[a] or a in anc[b]):
                v.append('C01:link-between-ancestor-and-descendant')
    # --- C05: ids unique per WBS and per detached tree
    groups = {}
    for k in range(n):
        w = g.wbs_of(k)
        key = ('w', w) if w is not None else ('t', g.top(k))
        groups.setdefault(key, []).append(g.ids[k])
    for key, ids in groups.items():
        if len(set(ids)) != len(ids):
            v.append('C05:duplicate-id-in-%s' % ('wbs' if key[0] == 'w' else 'detached-tree'))
    # --- C11: owner pointer == reachability
    if with_owner:
        reach = {}
        for w in range(len(g.roots)):
            for x in g.members(w):
                reach.setdefault(x, set()).add(w)
        for k in range(n):
            m = reach.get(k, set())
            if len(m) > 1:
                v.append('C11:task-reachable-from-two-wbs')
                continue
            exp = next(iter(m)) if m else None
            got = g.owner[k]
            if got != exp:
                if exp is None:
                    v.append('C11:reports-owner-but-not-reachable(stale)')
                elif got is None:
                    v.append('C11:reachable-but-reports-no-owner')
                else:
                    v.append('C11:reports-a-different-wbs')
    return sorted(set(v))


# ------------------------------------------------------------------------------ effects

LEGAL, UNJUDGED, ILLEGAL, CLASH = 'legal', 'unjudged', 'illegal', 'clash'


class Effect:
    """Outcome of the model for one call.

    cls         LEGAL    -> `cands` lists every acceptable post-state (structure), C16 applies
                UNJUDGED -> the statements do not fix the result; only the invariants apply
                ILLEGAL  -> the documented effect would break C01 (accepting it must show there)
                CLASH    -> the documented effect would only create a duplicate id: must raise RuntimeError
    released    tasks the call releases (for C11's follow-up)
    note        argument class for labels / signatures
    """
    __slots__ = ('cls', 'cands', 'released', 'note', 'why')

    def __init__(self, cls, cands=None, released=(), note='', why=()):
        self.cls = cls
        self.cands = cands or []
        self.released = list(released)
        self.note = note
        self.why = list(why)


def _ref(own):
    return ('t', own) if own >= 0 else ('w', -own - 1)


def is_foreign(x):
    return isinstance(x, str) and x.startswith('F:')


def has_foreign(op):
    for x in op[1:]:
        if is_foreign(x):
            return True
        if isinstance(x, (list, tuple)) and any(is_foreign(y) for y in x):
            return True
    return False


def _same_wbs_rule(g, movers, ref):
    """Cross-WBS adoption of a member is neither promised nor forbidden by the statements:
    a member of WBS X handed to another WBS or to a detached tree -> UNJUDGED."""
    target = g.wbs_of(ref[1]) if ref[0] == 't' else ref[1]
    for m in movers:
        w = g.wbs_of(m)
        if w is not None and w != target:
            return False
    return True


def _classify(g0, g1s, extra_unjudged=False):
    """Classify by applying the invariants to the documented post-state(s)."""
    if extra_unjudged:
        return UNJUDGED, []
    bad = invariants(g1s[0], with_owner=False)
    if not bad:
        return LEGAL, []
    if all(b.startswith('C05:') for b in bad):
        return CLASH, bad
    return ILLEGAL, bad


def _has_dups(seq):
    return len(set(seq)) != len(seq)


def _released(g0, g1):
    """tasks that were attached (had a parent or were WBS roots) and are detached tree roots afterwards"""
    out = []
    for k in range(g0.n):
        if g0.container(k) is not None and g1.container(k) is None:
            out.append(k)
    return out


def _set_children(g, ref, seq):
    """documented effect of assigning a children / roots list"""
    for c in list(g.clist(ref)):
        g.detach(c)
    for c in seq:
        g.attach(c, ref)


def _compose(g, steps, attrs, note):
    cur = g
    cls = LEGAL
    why = []
    single = True
    for st in steps:
        e = effect(cur, st, attrs)
        if e.cls != LEGAL:
            if cls == LEGAL or e.cls == ILLEGAL or (e.cls == UNJUDGED and cls == CLASH):
                cls = e.cls
            why += e.why
        if len(e.cands) > 1:
            single = False
        cur = e.cands[0]
    if cls == LEGAL and not single:
        cls = UNJUDGED
    return Effect(cls, [cur], _released(g, cur), note, why)


def effect(g, op, attrs=None):
    """Return the Effect of abstract op `op` on state g (g is not modified).
    attrs: {attribute name: [value per task]} for sort."""
    kind = op[0]
    n = g.n
    if has_foreign(op):
        # something that is not a Task where a task is expected (an id, a WBS, ...): nothing documents an effect;
        # the invariants and - if the call raises - the snapshot comparison apply
        return Effect(ILLEGAL, [g.copy()], (), 'non-task-argument', ['C01:non-task-argument'])

    def fin(g1s, movers=(), ref=None, unj=False, note=''):
        if ref is not None and movers and not _same_wbs_rule(g, movers, ref):
            unj = True
            note = note or 'cross-wbs'
        cls, why = _classify(g, g1s, unj)
        return Effect(cls, g1s, _released(g, g1s[0]), note, why)

    if kind == 'set_parent':
        t, p = op[1], op[2]
        g1 = g.copy()
        if p is None:
            w = g.wbs_of(t)
            if w is None:
                g1.detach(t)
                return fin([g1], note='detach')
            # member: becomes a root of its WBS (last; already a root: in place or last)
            g1.attach(t, ('w', w))
            cands = [g1]
            if g.container(t) == ('w', w):
                cands.append(g.copy())
            return fin(cands, note='to-root')
        if p == t:
            g1.parent[t] = t
            return Effect(ILLEGAL, [g1], (), 'self', ['C01:task-is-its-own-ancestor'])
        if t in (g.ancestors(p) or []):
            g1.detach(t)
            g1.parent[t] = p
            g1.children[p].append(t)
            return Effect(ILLEGAL, [g1], (), 'descendant-as-parent', ['C01:task-is-its-own-ancestor'])
        g1.attach(t, ('t', p))
        cands = [g1]
        if g.parent[t] == p:
            cands.append(g.copy())
        return fin(cands, [t], ('t', p), note='reparent')

    if kind == 'adopt_children':
        # own.children = <the live children / roots list of src>: "consist of exactly the given tasks in the given order"
        own, src = op[1], op[2]
        return effect(g, ('set_children', own, list(g.clist(_ref(src)))), attrs)

    if kind in ('set_children', 'floordiv'):
        own, raw = op[1], op[2]
        ref = _ref(own)
        seq = [x for x in raw if x is not None]
        if kind == 'floordiv':
            seq = list(g.clist(ref)) + seq
        unj = _has_dups(seq)
        seq = list(dict.fromkeys(seq))
        if ref[0] == 't':
            anc = g.ancestors(own) or []
            if own in seq:
                g1 = g.copy(); g1.parent[own] = own
                return Effect(ILLEGAL, [g1], (), 'self-as-child', ['C01:task-is-its-own-ancestor'])
            if any(c in anc for c in seq):
                g1 = g.copy()
                return Effect(ILLEGAL, [g1], (), 'ancestor-as-child', ['C01:task-is-its-own-ancestor'])
        g1 = g.copy()
        _set_children(g1, ref, seq)
        return fin([g1], seq, ref, unj, note='dups' if unj else '')

    if kind == 'append':
        # "append puts the task last" - also for a task that is already listed (it moves to the end)
        own, t = op[1], op[2]
        ref = _ref(own)
        if ref[0] == 't':
            e = effect(g, ('set_parent', t, own), attrs)
            if e.cls in (LEGAL, CLASH) or (e.cls == UNJUDGED):
                e.cands = e.cands[:1]
            return e
        g1 = g.copy()
        g1.attach(t, ref)
        return fin([g1], [t], ref, note='append-root')

    if kind == 'insert':
        own, t, i = op[1], op[2], op[3]
        ref = _ref(own)
        lst = g.clist(ref)
        if not isinstance(i, int) or isinstance(i, bool):
            return Effect(UNJUDGED, [g.copy()], (), 'index-not-an-int')
        if ref[0] == 't':
            if t == own or t in (g.ancestors(own) or []):
                g1 = g.copy()
                return Effect(ILLEGAL, [g1], (), 'self-or-ancestor', ['C01:task-is-its-own-ancestor'])
        if t in lst:
            # position of an element that is already in the list is not fixed by the statement
            cands = []
            rest = [x for x in lst if x != t]
            for pos in range(len(rest) + 1):
                g1 = g.copy()
                l1 = g1.clist(ref)
                l1[:] = rest[:pos] + [t] + rest[pos:]
                cands.append(g1)
            return fin(cands, [t], ref, note='insert-existing')
        if not (0 <= i <= len(lst)):
            g1 = g.copy(); g1.attach(t, ref)
            e = fin([g1], [t], ref, True, note='index-out-of-range')
            return e
        g1 = g.copy()
        g1.attach(t, ref, i)
        return fin([g1], [t], ref, note='insert-new')

    if kind == 'remove':
        own, t = op[1], op[2]
        ref = _ref(own)
        g1 = g.copy()
        if t in g.clist(ref):
            g1.detach(t)
        return fin([g1], note='remove')

    if kind == 'move':
        own, raw, before, after = op[1], op[2], op[3], op[4]
        ref = _ref(own)
        lst = g.clist(ref)
        seq = [x for x in raw if x is not None]
        anchor = before if before is not None else after
        ok = (len(seq) > 0 and not _has_dups(seq) and all(x in lst for x in seq)
              and (before is None) != (after is None) and anchor in lst and anchor not in seq)
        if not ok:
            return Effect(UNJUDGED, [g.copy()], (), 'bad-move-arguments')
        rest = [x for x in lst if x not in seq]
        pos = rest.index(anchor) + (0 if before is not None else 1)
        cands = []
        for perm in itertools.permutations(seq):
            g1 = g.copy()
            g1.clist(ref)[:] = rest[:pos] + list(perm) + rest[pos:]
            cands.append(g1)
        return fin(cands, note='move')

    if kind == 'reorder':
        own, ids = op[1], op[2]
        ref = _ref(own)
        lst = g.clist(ref)
        by_id = {}
        for x in lst:
            by_id.setdefault(g.ids[x], x)
        if _has_dups(ids) or any(i not in by_id for i in ids):
            return Effect(UNJUDGED, [g.copy()], (), 'bad-reorder-ids')
        first = [by_id[i] for i in ids]
        g1 = g.copy()
        g1.clist(ref)[:] = first + [x for x in lst if x not in first]
        return fin([g1], note='reorder')

    if kind == 'remove_all':
        own, ids = op[1], op[2]
        ref = _ref(own)
        g1 = g.copy()
        for x in list(g.clist(ref)):
            if g.ids[x] in ids:
                g1.detach(x)
        return fin([g1], note='remove_all')

    if kind == 'wbs_remove':
        w, t = op[1], op[2]
        g1 = g.copy()
        if g.wbs_of(t) == w:
            g1.detach(t)
        return fin([g1], note='wbs-remove')

    if kind == 'wbs_remove_all':
        w, ids = op[1], op[2]
        g1 = g.copy()
        for x in g.members(w):
            if g.ids[x] in ids and g1.wbs_of(x) == w:
                g1.detach(x)
        return fin([g1], note='wbs-remove-all')

    if kind in ('set_preds', 'set_succs', 'lshift', 'rshift'):
        t, raw = op[1], op[2]
        seq = [x for x in raw if x is not None]
        is_pred = kind in ('set_preds', 'lshift')
        if kind == 'lshift':
            seq = list(g.preds[t]) + seq
        elif kind == 'rshift':
            seq = list(g.succs[t]) + seq
        unj = _has_dups(seq)
        g1 = g.copy()
        (g1.set_preds if is_pred else g1.set_succs)(t, list(dict.fromkeys(seq)) if unj else seq)
        return fin([g1], unj=unj, note='dups' if unj else '')

    if kind in ('pred_append', 'succ_append'):
        t, x = op[1], op[2]
        cur = g.preds[t] if kind == 'pred_append' else g.succs[t]
        return effect(g, ('set_preds' if kind == 'pred_append' else 'set_succs', t, list(cur) + [x]), attrs)

    if kind in ('pred_remove', 'succ_remove'):
        t, x = op[1], op[2]
        cur = g.preds[t] if kind == 'pred_remove' else g.succs[t]
        return effect(g, ('set_preds' if kind == 'pred_remove' else 'set_succs', t, [y for y in cur if y != x]), attrs)

    if kind in ('pred_remove_all', 'succ_remove_all'):
        t, ids = op[1], op[2]
        cur = g.preds[t] if kind == 'pred_remove_all' else g.succs[t]
        return effect(g, ('set_preds' if kind == 'pred_remove_all' else 'set_succs', t,
                          [y for y in cur if g.ids[y] not in ids]), attrs)

    if kind in ('list_lshift', 'list_rshift'):
        own, raw = op[1], op[2]
        sub = 'lshift' if kind == 'list_lshift' else 'rshift'
        return _compose(g, [(sub, t, raw) for t in g.clist(_ref(own))], attrs, 'each-receiver')

    if kind in ('dep_lshift', 'dep_rshift'):
        # t.predecessors << x, t.successors >> x, ...: the operator applied to every task of a dependency list
        t, which, raw = op[1], op[2], op[3]
        sub = 'lshift' if kind == 'dep_lshift' else 'rshift'
        receivers = list(g.preds[t] if which == 'preds' else g.succs[t])
        return _compose(g, [(sub, r, raw) for r in receivers], attrs, 'each-receiver')

    if kind == 'bulk_parent':
        own, ids, p = op[1], op[2], op[3]
        sel = [x for x in g.clist(_ref(own)) if g.ids[x] in ids]
        return _compose(g, [('set_parent', t, p) for t in sel], attrs, 'each-selected')

    if kind == 'ctor':
        # ('ctor', mode, id-or-source, parent, children, preds, succs, extra): Task(id, ..., **extra) or source.clone(..., **extra)
        mode, ref, extra = op[1], op[2], op[7]
        tid = ref if mode == 'new' else g.ids[ref]
        e = effect(g, ('new_task', tid, op[3], op[4], op[5], op[6]), attrs)
        if extra in ('id', 'wbs', 'all_children'):
            # a keyword that names a read-only member of Task: the call must raise (and change nothing)
            return Effect(ILLEGAL, [g.copy()], (), 'read-only-keyword', ['keyword names a read-only member'])
        e.note = 'constructor' if mode == 'new' else 'clone'
        return e

    if kind == 'new_task':
        tid, p, ch, pr, su = op[1], op[2], op[3], op[4], op[5]
        g1 = g.copy()
        k = g1.add_task(tid)
        steps = []
        if p is not None:
            steps.append(('set_parent', k, p))
        if ch is not None:
            steps.append(('set_children', k, ch))
        if su:
            steps.append(('set_succs', k, su))
        if pr:
            steps.append(('set_preds', k, pr))
        e = _compose(g1, steps, attrs, 'constructor')
        e.released = [x for x in e.released if x != k]
        return e

    if kind == 'sort':
        own, key, reverse = op[1], op[2], op[3]
        ref = _ref(own)
        lst = g.clist(ref)
        if isinstance(key, (list, tuple)) and key and attrs is not None and all(isinstance(k, str) and k in attrs for k in key):
            # a list of attribute names: "ascending by the specified attributes".  The order is judged when comparing the
            # values attribute by attribute and comparing their joined texts (what the code does) give the same order
            if any(attrs[k][x] is None for k in key for x in lst):
                return Effect(UNJUDGED, [g.copy()], (), 'sort-none-values')
            try:
                by_vals = sorted(lst, key=lambda x: tuple(attrs[k][x] for k in key), reverse=bool(reverse))
            except TypeError:
                return Effect(UNJUDGED, [g.copy()], (), 'sort-incomparable')
            by_text = sorted(lst, key=lambda x: '-'.join(str(attrs[k][x]) for k in key), reverse=bool(reverse))
            if by_vals != by_text:
                return Effect(UNJUDGED, [g.copy()], (), 'sort-list-key-ambiguous')
            g1 = g.copy()
            g1.clist(ref)[:] = by_vals
            return fin([g1], note='sort-by-list')
        if not isinstance(key, str) or attrs is None or key not in attrs:
            return Effect(UNJUDGED, [g.copy()], (), 'sort-key-not-modelled')
        vals = attrs[key]
        if any(vals[x] is None for x in lst):
            return Effect(UNJUDGED, [g.copy()], (), 'sort-none-values')
        try:
            asc = sorted(lst, key=lambda x: vals[x])
        except TypeError:
            return Effect(UNJUDGED, [g.copy()], (), 'sort-incomparable')
        cands = []
        if not reverse:
            orders = [asc]
        else:
            # "stably, reversed on request": a stable descending sort keeps ties in their previous order
            orders = [sorted(lst, key=lambda x: vals[x], reverse=True)]
        for o in orders:
            g1 = g.copy()
            g1.clist(ref)[:] = o
            cands.append(g1)
        return fin(cands, note='sort')

    raise AssertionError('unknown op %r' % (op,))
