"""Hypothesis strategies (and the small-scope enumerator) for mutator histories."""
import itertools

from hypothesis import strategies as st

NW = 3


def _w(pairs):
    """weighted one_of: [(weight, strategy)]"""
    out = []
    for w, s in pairs:
        out += [s] * w
    return st.one_of(out)


def op_strategy(focus, pool):
    ti = st.integers(0, 11)
    wi = st.integers(-NW, -1)
    own = _w([(3, ti), (2, wi)]) if focus != 'membership' else _w([(2, ti), (3, wi)])
    foreign = st.sampled_from(['F:id', 'F:str', 'F:wbs', 'F:obj', 'F:dict', 'F:tasks', 'F:kids', 'F:tasks', 'F:kids'])
    elem = _w([(16, ti), (2, st.none()), (1, foreign)])
    tif = _w([(15, ti), (1, foreign)])          # single argument: now and then something that is not a task
    index = _w([(6, st.integers(-1, 4)), (1, st.sampled_from([1.0, 0.0, 0.5, 2.0, 1.5, None, '1']))])
    seq = st.lists(elem, max_size=3)
    seq2 = st.lists(ti, min_size=2, max_size=3)
    idl = st.lists(st.sampled_from(pool + [99]), max_size=3)
    opt = st.one_of(st.none(), ti)
    form = st.sampled_from(['list', 'list', 'tuple', 'single'])
    flag_any = {'general': st.sampled_from(['', '', 'L', 'I']),
                'collide': st.sampled_from(['', 'L', 'I', 'I']),
                'membership': st.sampled_from(['', 'L', 'L', 'L']),
                'late': st.sampled_from(['', 'I', 'J', 'J']),
                'legal': st.sampled_from(['L', 'L', 'L', ''])}[focus]
    T = st.tuples
    J = st.just
    hier = [
        T(J('set_parent'), ti, opt, flag_any),
        T(J('set_children'), own, seq, form, flag_any),
        T(J('append'), own, tif, flag_any),
        T(J('adopt_children'), own, own, flag_any),
        T(J('insert'), own, ti, index, flag_any),
        T(J('remove'), own, ti, flag_any),
        T(J('move'), own, st.lists(ti, min_size=1, max_size=2), opt, opt, flag_any),
        T(J('sort'), own, st.sampled_from(['id', 'name', 'rank', 'name', 'rank', 'zzz', ('name', 'id'), ('rank',), ('prio',), 'prio', ('name', 'prio'),
                                           'label', ('prio', 'name')]), st.booleans(), J('')),
        T(J('reorder'), own, idl, J('')),
        T(J('remove_all'), own, idl, J('')),
        T(J('floordiv'), own, seq, flag_any),
        T(J('bulk_parent'), own, idl, opt, flag_any),
        T(J('wbs_remove'), st.integers(0, NW - 1), ti, flag_any),
        T(J('wbs_remove_all'), st.integers(0, NW - 1), idl, J('')),
        T(J('new_task'), st.sampled_from(pool), opt, st.one_of(st.none(), seq), st.one_of(st.none(), seq),
          st.one_of(st.none(), seq), flag_any),
        T(J('ctor'), J('new'), st.sampled_from(pool), opt, st.one_of(st.none(), seq), st.one_of(st.none(), seq),
          st.one_of(st.none(), seq), st.sampled_from([None, None, 'zone', 'wbs', 'all_children']), flag_any),
        T(J('ctor'), J('clone'), ti, opt, st.one_of(st.none(), seq), st.one_of(st.none(), seq),
          st.one_of(st.none(), seq), st.sampled_from([None, None, 'zone', 'wbs', 'id', 'id']), flag_any),
    ]
    deps = [
        T(J('set_preds'), ti, seq, form, flag_any),
        T(J('set_succs'), ti, seq, form, flag_any),
        T(J('pred_append'), ti, tif, flag_any),
        T(J('pred_remove'), ti, ti, flag_any),
        T(J('succ_append'), ti, tif, flag_any),
        T(J('succ_remove'), ti, ti, flag_any),
        T(J('pred_remove_all'), ti, idl, J('')),
        T(J('succ_remove_all'), ti, idl, J('')),
        T(J('lshift'), ti, seq, flag_any),
        T(J('rshift'), ti, seq, flag_any),
        T(J('list_lshift'), own, seq, flag_any),
        T(J('list_rshift'), own, seq, flag_any),
        T(J('dep_lshift'), ti, st.sampled_from(['preds', 'succs']), seq, flag_any),
        T(J('dep_rshift'), ti, st.sampled_from(['preds', 'succs']), seq, flag_any),
    ]
    H = dict(zip(['set_parent', 'set_children', 'append', 'adopt_children', 'insert', 'remove', 'move', 'sort', 'reorder',
                  'remove_all', 'floordiv', 'bulk_parent', 'wbs_remove', 'wbs_remove_all', 'new_task', 'ctor_new', 'ctor_clone'], hier))
    D = dict(zip(['set_preds', 'set_succs', 'pred_append', 'pred_remove', 'succ_append', 'succ_remove',
                  'pred_remove_all', 'succ_remove_all', 'lshift', 'rshift', 'list_lshift', 'list_rshift', 'dep_lshift', 'dep_rshift'], deps))
    late_ops = [
        T(J('set_children'), own, seq2, form, J('J')),
        T(J('floordiv'), own, seq2, J('J')),
        T(J('set_preds'), ti, seq2, form, J('J')),
        T(J('set_succs'), ti, seq2, form, J('J')),
        T(J('lshift'), ti, seq2, J('J')),
        T(J('rshift'), ti, seq2, J('J')),
        T(J('list_lshift'), own, seq2, J('J')),
        T(J('list_rshift'), own, seq2, J('J')),
    ]
    if focus == 'general':
        W = [(3, H['set_parent']), (3, H['set_children']), (3, H['append']), (1, H['adopt_children']), (2, H['insert']), (1, H['remove']),
             (2, H['move']), (1, H['sort']), (1, H['reorder']), (1, H['remove_all']), (2, H['floordiv']),
             (1, H['bulk_parent']), (1, H['wbs_remove']), (1, H['wbs_remove_all']), (1, H['new_task']), (1, H['ctor_new']), (1, H['ctor_clone']),
             (3, D['set_preds']), (3, D['set_succs']), (2, D['pred_append']), (1, D['pred_remove']),
             (2, D['succ_append']), (1, D['succ_remove']), (1, D['pred_remove_all']), (1, D['succ_remove_all']),
             (2, D['lshift']), (2, D['rshift']), (1, D['list_lshift']), (1, D['list_rshift']), (1, D['dep_lshift']), (1, D['dep_rshift'])]
    elif focus == 'collide':
        W = [(5, H['set_parent']), (5, H['set_children']), (6, H['append']), (1, H['adopt_children']), (4, H['insert']), (1, H['remove']),
             (1, H['move']), (3, H['floordiv']), (2, H['bulk_parent']), (1, H['wbs_remove']), (3, H['new_task']), (1, H['ctor_new']), (1, H['ctor_clone']),
             (1, D['set_preds']), (1, D['pred_append'])]
    elif focus == 'membership':
        W = [(4, H['set_parent']), (5, H['set_children']), (6, H['append']), (1, H['adopt_children']), (2, H['insert']), (4, H['remove']),
             (1, H['move']), (3, H['remove_all']), (2, H['floordiv']), (2, H['bulk_parent']),
             (4, H['wbs_remove']), (3, H['wbs_remove_all']), (1, H['new_task']), (1, D['set_preds'])]
    elif focus == 'late':
        W = [(2, H['set_parent']), (2, H['set_children']), (3, H['append']), (1, H['adopt_children']), (4, H['insert']), (1, H['remove']),
             (5, H['move']), (3, H['sort']), (3, H['reorder']), (1, H['remove_all']), (1, H['floordiv']),
             (3, H['bulk_parent']), (1, H['wbs_remove']), (2, H['ctor_new']), (2, H['ctor_clone']),
             (2, D['set_preds']), (2, D['set_succs']), (1, D['pred_append']), (1, D['succ_append']),
             (2, D['list_lshift']), (2, D['list_rshift']), (1, D['dep_lshift']), (1, D['dep_rshift'])] + [(2, o) for o in late_ops]
    elif focus == 'legal':
        W = [(3, H['set_parent']), (3, H['set_children']), (3, H['append']), (1, H['adopt_children']), (4, H['insert']), (2, H['remove']),
             (4, H['move']), (3, H['sort']), (3, H['reorder']), (2, H['remove_all']), (2, H['floordiv']),
             (1, H['bulk_parent']), (2, H['wbs_remove']), (1, H['wbs_remove_all']), (1, H['new_task']),
             (2, D['set_preds']), (2, D['set_succs']), (2, D['pred_append']), (2, D['pred_remove']),
             (2, D['succ_append']), (2, D['succ_remove']), (1, D['pred_remove_all']), (1, D['succ_remove_all']),
             (1, D['lshift']), (1, D['rshift']), (1, D['list_lshift']), (1, D['list_rshift']), (2, D['dep_lshift']), (2, D['dep_rshift'])]
    else:
        raise AssertionError(focus)
    return _w(W)


# a prefix that quickly builds a populated graph, so that later calls meet a non-trivial state
def _prefix():
    ti = st.integers(0, 11)
    wi = st.integers(-NW, -1)
    flat = st.lists(st.one_of(
        st.tuples(st.just('append'), wi, ti, st.just('L')),
        st.tuples(st.just('append'), ti, ti, st.just('L')),
        st.tuples(st.just('append'), ti, ti, st.just('L')),
        st.tuples(st.just('pred_append'), ti, ti, st.just('L')),
    ), min_size=0, max_size=8)

    @st.composite
    def deep(draw):
        # a chain a{b{c{d}}} (optionally inside a WBS), a second small tree, and links that start deep in the chain
        a = draw(st.integers(0, 5))
        n = draw(st.integers(3, 5))
        ops = []
        if draw(st.booleans()):
            ops.append(('append', draw(wi), a, 'L'))
        for k in range(n - 1):
            ops.append(('append', a + k, a + k + 1, 'L'))
        o = a + n
        if draw(st.booleans()):
            ops.append(('append', o, o + 1, 'L'))
        if draw(st.booleans()):
            ops.append(('append', draw(wi), o, 'L'))
        for _ in range(draw(st.integers(1, 3))):
            ops.append((draw(st.sampled_from(['pred_append', 'succ_append'])), a + draw(st.integers(1, n - 1)),
                        o + draw(st.integers(0, 1)), 'L'))
        return ops

    @st.composite
    def weave(draw):
        # a few tasks, some of them nested, a chain of links threaded through them in random order, and then a call that
        # tries to close the longest circle it can (flag 'C'): circles that pass through the hierarchy - leave a summary
        # task, come back through one of its descendants - are the ones a cycle check with a shortcut overlooks
        k = draw(st.integers(4, 6))
        base = draw(st.integers(0, 5))
        idx = [base + i for i in range(k)]
        ops = []
        for i in range(1, k):
            if draw(st.integers(0, 2)) == 0:
                ops.append(('append', idx[draw(st.integers(0, i - 1))], idx[i], 'L'))
        if draw(st.booleans()):
            ops.append(('append', draw(wi), idx[0], 'L'))
        perm = draw(st.permutations(idx))
        for a, b in zip(perm, perm[1:]):
            if draw(st.booleans()):
                ops.append(('succ_append', a, b, ''))
            else:
                ops.append(('pred_append', b, a, ''))
        for _ in range(draw(st.integers(1, 2))):
            kind = draw(st.sampled_from(['pred_append', 'succ_append', 'lshift', 'rshift', 'set_preds', 'set_succs']))
            r, a = draw(st.sampled_from(perm)), draw(st.sampled_from(perm))
            if kind.endswith('append'):
                ops.append((kind, r, a, 'C'))
            elif kind.endswith('shift'):
                ops.append((kind, r, [a], 'C'))
            else:
                ops.append((kind, r, [a], 'list', 'C'))
        return ops
    return st.one_of(flat, flat, deep(), weave())


@st.composite
def history(draw, focus='general', max_ops=24, large=False):
    u = draw(st.integers(16, 28)) if large else draw(st.integers(5, 10))
    if focus == 'collide':
        pool = list(range(1, max(3, u // 2) + 1))
    else:
        pool = list(range(1, u))
    ids = draw(st.lists(st.sampled_from(pool), min_size=u, max_size=u))
    strids = draw(st.integers(0, 4)) == 0        # ids are opaque: one universe in five uses strings
    if not strids and draw(st.integers(0, 5)) == 0:
        import sys as _sys
        big = draw(st.sampled_from([_sys.maxsize, 0, -1, 2 ** 70]))     # extreme ids, incl. the one the hidden WBS root uses
        victim = draw(st.sampled_from(pool))
        ids = [big if i == victim else i for i in ids]
    pre = draw(_prefix())
    if large:
        # populate: most tasks attached below the previous one or an earlier one (depth up to ~10), a few roots in WBSs
        pre = []
        for k in range(u - 3):
            owner = draw(st.sampled_from([k - 1, k - 1, draw(st.integers(0, max(0, k - 1))), -1 - draw(st.integers(0, NW - 1))])) if k else -1
            pre.append(('append', owner, k, 'L'))
        for _ in range(draw(st.integers(2, 8))):
            pre.append((draw(st.sampled_from(['pred_append', 'succ_append'])), draw(st.integers(0, u - 1)), draw(st.integers(0, u - 1)), 'L'))
    ops = draw(st.lists(op_strategy(focus, sorted(set(pool))), min_size=(12 if large else 1), max_size=max_ops * (3 if large else 1)))
    if large:
        # task indexes are drawn from 0..11 and taken modulo the universe: spread them over the larger universe
        k = draw(st.integers(1, 5))
        def spread(o):
            return [((x * k + i) % u if isinstance(x, int) and not isinstance(x, bool) and x >= 0 and j > 0 and o[0] not in ('insert',) else x) for j, (i, x) in enumerate(zip(range(len(o)), o))]
        ops = [tuple(spread(list(o))) for o in ops]
    if draw(st.integers(0, 5)) == 0:
        # "try again after a refusal": a children assignment that names a newcomer v and is refused for a reason that has nothing
        # to do with ids (the owner itself is in the list); then the owner's tree gains another task with v's id; then v comes
        # back through another route (append / parent / insert) and must be refused - whatever the refused call left behind
        dup = [(a, b) for a in range(u) for b in range(u) if a != b and ids[a] == ids[b]]
        rest = [i for i in range(u)]
        if dup:
            v, w = draw(st.sampled_from(dup))
            q = draw(st.sampled_from([i for i in rest if i not in (v, w)] or rest))
            third = draw(st.sampled_from([('append', q, v, ''), ('set_parent', v, q, ''), ('insert', q, v, 0, '')]))
            retry = [('set_children', q, [v, q], 'list', ''), ('append', q, w, ''), third]
            if draw(st.booleans()):
                pre = list(pre) + retry
            else:
                ops = list(ops) + retry
    case = {'ids': ids, 'nw': NW, 'held': draw(st.sampled_from([0, 0, 1, 2])), 'iter': draw(st.integers(0, 3)) == 0,
            'sub': draw(st.integers(0, 3)) == 0, 'ops': [list(o) for o in pre] + [list(o) for o in ops]}
    if strids:
        f = lambda i: 'k%s' % i
        case['ids'] = [f(i) for i in ids]
        for o in case['ops']:
            if o[0] in ('reorder', 'remove_all', 'wbs_remove_all', 'pred_remove_all', 'succ_remove_all'):
                o[2] = [f(i) for i in o[2]]
            elif o[0] == 'bulk_parent':
                o[2] = [f(i) for i in o[2]]
            elif o[0] == 'new_task':
                o[1] = f(o[1])
            elif o[0] == 'ctor' and o[1] == 'new':
                o[2] = f(o[2])
    return case


# ------------------------------------------------------------------------------ small scope

SMALL_IDS = [1, 2, 3, 1]
SMALL_NW = 2
SHAPES = {
    'empty': [],
    'chain-in-wbs': [('append', -1, 0, ''), ('append', 0, 1, ''), ('append', 1, 2, '')],
    'fork-detached': [('append', 0, 1, ''), ('append', 0, 2, '')],
    'linked-pair': [('append', -1, 0, ''), ('append', -1, 1, ''), ('pred_append', 1, 0, ''), ('append', -2, 3, '')],
    'two-wbs': [('append', -1, 0, ''), ('append', 0, 1, ''), ('append', -2, 3, ''), ('pred_append', 2, 1, '')],
    'detached-chain-linked-leaf': [('append', 0, 1, ''), ('append', 1, 2, ''), ('pred_append', 2, 3, '')],
    'linked-grandchild': [('append', 0, 3, ''), ('append', 1, 2, ''), ('succ_append', 2, 0, '')],
    'wbs-with-two-branches': [('append', -1, 0, ''), ('append', 0, 2, ''), ('append', -1, 1, '')],
    'flat-roots-with-name-ties': [('append', -1, 1, ''), ('append', -1, 0, ''), ('append', -1, 2, ''), ('append', -1, 3, '')],
    'children-with-name-ties': [('append', 1, 0, ''), ('append', 1, 2, ''), ('append', 1, 3, '')],
    'fan-out-links': [('append', -1, 0, ''), ('succ_append', 0, 1, ''), ('succ_append', 0, 2, ''), ('succ_append', 0, 3, ''), ('pred_append', 3, 2, '')],
}


# shapes whose point is a link / hierarchy conflict use pairwise distinct ids (no id clash masks the conflict)
SHAPE_IDS = {'detached-chain-linked-leaf': [1, 2, 3, 4], 'linked-grandchild': [1, 2, 3, 4],
             'flat-roots-with-name-ties': [1, 2, 3, 4], 'children-with-name-ties': [1, 2, 3, 4], 'fan-out-links': [1, 2, 3, 4]}


def small_alphabet(reduced=True):
    """Every call over 4 tasks and 2 WBSs with small arguments."""
    ts = range(4)
    owners = list(ts) + [-1, -2]
    seqs1 = [[a] for a in ts]
    seqs2 = [[a, b] for a in ts for b in ts]
    seqs = [[]] + seqs1 + (seqs2 if not reduced else [[0, 1], [1, 0], [1, 2], [2, 3], [3, 0], [0, 0], [1, 3], [2, 1]])
    ops = []
    for t in ts:
        for p in list(ts) + [None]:
            ops.append(('set_parent', t, p, ''))
    for o in owners:
        for s in seqs:
            ops.append(('set_children', o, s, 'list', ''))
            if s:
                ops.append(('floordiv', o, s, ''))
        for t in ts:
            ops.append(('append', o, t, ''))
            ops.append(('remove', o, t, ''))
            for i in (0, 1, 5) if reduced else (-1, 0, 1, 2, 5):
                ops.append(('insert', o, t, i, ''))
        for s in seqs1 + ([[0, 1], [1, 2]] if reduced else seqs2):
            for b, a in [(None, None)] + [(x, None) for x in ts] + [(None, x) for x in ts] + [(0, 1)]:
                ops.append(('move', o, s, b, a, ''))
        for key in ('id', 'name', 'rank') + (() if reduced else ('zzz', 'prio', ('prio',), ('name', 'prio'), ('rank',))):
            for rev in (False, True):
                ops.append(('sort', o, key, rev, ''))
        for ids in ([[1], [2, 1], [3, 2], [9]] if reduced else [[1], [2], [3], [1, 2], [2, 1], [3, 2], [2, 3], [9], [1, 1]]):
            ops.append(('reorder', o, ids, ''))
            ops.append(('remove_all', o, ids, ''))
    for t in ts:
        for s in seqs:
            ops.append(('set_preds', t, s, 'list', ''))
            ops.append(('set_succs', t, s, 'list', ''))
            if s:
                ops.append(('lshift', t, s, ''))
                ops.append(('rshift', t, s, ''))
        for x in ts:
            ops.append(('pred_append', t, x, ''))
            ops.append(('succ_append', t, x, ''))
            ops.append(('pred_remove', t, x, ''))
            ops.append(('succ_remove', t, x, ''))
    for w in range(SMALL_NW):
        for t in ts:
            ops.append(('wbs_remove', w, t, ''))
        for ids in [[1], [2, 3]]:
            ops.append(('wbs_remove_all', w, ids, ''))
    for o in owners:
        for s in seqs1:
            ops.append(('list_lshift', o, s, ''))
            ops.append(('list_rshift', o, s, ''))
        for p in (None, 0, 2):
            ops.append(('bulk_parent', o, [1, 2], p, ''))
    for t in ts:
        for which in ('preds', 'succs'):
            for x in ts:
                ops.append(('dep_lshift', t, which, [x], ''))
                ops.append(('dep_rshift', t, which, [x], ''))
    # arguments that are not tasks, indexes that are not integers
    for t in ts:
        for f in ('F:id', 'F:wbs', 'F:tasks', 'F:kids'):
            for s in ([f], [(t + 1) % 4, f], [f, (t + 1) % 4]):
                ops.append(('set_preds', t, s, 'list', ''))
                ops.append(('set_succs', t, s, 'list', ''))
                ops.append(('lshift', t, s, ''))
                ops.append(('rshift', t, s, ''))
            ops.append(('pred_append', t, f, ''))
            ops.append(('succ_append', t, f, ''))
    for o in owners:
        for f in ('F:id', 'F:wbs'):
            for s in ([f], [1, f], [f, 2]):
                ops.append(('set_children', o, s, 'list', ''))
                ops.append(('floordiv', o, s, ''))
                ops.append(('move', o, s, 0, None, ''))
            ops.append(('append', o, f, ''))
        for t in ts:
            for i in (0.0, 1.0, 0.5, None, '0'):
                ops.append(('insert', o, t, i, ''))
    ops.append(('new_task', 1, 0, None, None, None, ''))
    ops.append(('new_task', 3, None, [0, 1], None, None, ''))
    ops.append(('new_task', 2, 1, [2], [0], None, ''))
    ops.append(('new_task', 4, None, None, [0], [1], ''))
    for p in ts:
        # constructor calls that name the same task in two roles, or a clashing id
        ops.append(('new_task', 4, p, None, [p], None, ''))
        ops.append(('new_task', 4, p, None, None, [p], ''))
        ops.append(('new_task', 4, None, [p], [p], None, ''))
        ops.append(('new_task', 4, p, [(p + 1) % 4], None, None, ''))
        ops.append(('new_task', 2, p, None, None, None, ''))
        ops.append(('new_task', 4, None, None, [p], [p], ''))
        for extra in (None, 'wbs', 'zone'):
            ops.append(('ctor', 'new', 4, p, None, None, None, extra, ''))
            ops.append(('ctor', 'new', 4, None, [p], None, None, extra, ''))
            ops.append(('ctor', 'new', 4, None, None, [p], None, extra, ''))
        for extra in (None, 'id', 'wbs'):
            for q in ts:
                ops.append(('ctor', 'clone', p, q, None, None, None, extra, ''))
            ops.append(('ctor', 'clone', p, None, [(p + 1) % 4], None, None, extra, ''))
            ops.append(('ctor', 'clone', p, None, None, [(p + 1) % 4], [(p + 2) % 4], extra, ''))
    return ops


def tiny_alphabet():
    """hierarchy / membership calls only, single-task arguments (for complete 2-step enumeration in the quick tier)"""
    ts = range(4)
    owners = list(ts) + [-1, -2]
    ops = []
    for t in ts:
        for p in list(ts) + [None]:
            ops.append(('set_parent', t, p, ''))
    for o in owners:
        for t in ts:
            ops.append(('append', o, t, ''))
            ops.append(('remove', o, t, ''))
        ops.append(('remove_all', o, [1, 2], ''))
        ops.append(('set_children', o, [1, 0], 'list', ''))
        ops.append(('set_children', o, [3], 'list', ''))
        ops.append(('floordiv', o, [2], ''))
    for w in range(SMALL_NW):
        for t in ts:
            ops.append(('wbs_remove', w, t, ''))
    for t in ts:
        for x in ts:
            ops.append(('pred_append', t, x, ''))
    for o in owners:
        for o2 in (0, 1, -1, o):
            ops.append(('adopt_children', o, o2, ''))
    return ops


def mixed_histories():
    """thorough tier: every 2-step history with one step from the reduced alphabet (1 068 calls, sequences and
    operators included) and the other from the tiny alphabet (116 calls), in both orders, from every shape"""
    red, tny = small_alphabet(True), tiny_alphabet()
    for name, shape in SHAPES.items():
        for first, second in ((red, tny), (tny, red)):
            for a in first:
                for b in second:
                    yield {'ids': SHAPE_IDS.get(name, SMALL_IDS), 'nw': SMALL_NW, 'shape': name, 'held': True,
                           'ops': [list(o) for o in shape] + [list(a), list(b)]}


def view_histories():
    """kept list objects: every pair (order-changing call, list-writing call) on one populated list, in both
    phases of the kept / fresh alternation, so that each kind of list object can go stale with respect to the other"""
    for name, own, members in (('flat-roots-with-name-ties', -1, [1, 0, 2, 3]), ('children-with-name-ties', 1, [0, 2, 3])):
        pairs = [(a, b) for a in members for b in members if a != b]
        order_ops = [('move', own, [a], b, None, '') for a, b in pairs] + [('move', own, [a], None, b, '') for a, b in pairs[:4]]
        order_ops += [('sort', own, k, r, '') for k in ('id', 'name') for r in (False, True)]
        order_ops += [('reorder', own, [SHAPE_IDS[name][members[-1]]], ''), ('reorder', own, [SHAPE_IDS[name][members[1]], SHAPE_IDS[name][members[0]]], '')]
        order_ops += [('insert', own, a, i, '') for a in members[:2] for i in (0, 1)]
        writers = order_ops + [('remove', own, a, '') for a in members] + [('append', own, a, '') for a in members]
        writers += [('remove_all', own, [SHAPE_IDS[name][members[0]], SHAPE_IDS[name][members[-1]]], '')]
        for a in order_ops:
            for b in writers:
                for held in (1, 2):
                    yield {'ids': SHAPE_IDS[name], 'nw': SMALL_NW, 'shape': name, 'held': held,
                           'ops': [list(o) for o in SHAPES[name]] + [list(a), list(b)]}


def small_histories(length, reduced=True, tiny=False):
    alpha = tiny_alphabet() if tiny else small_alphabet(reduced)
    for name, shape in SHAPES.items():
        if tiny and name in ('flat-roots-with-name-ties', 'children-with-name-ties', 'linked-pair', 'fan-out-links'):
            continue        # the sort / link shapes add nothing to the hierarchy-only 2-step enumeration
        for combo in itertools.product(alpha, repeat=length):
            for held in (True,):      # held mode alternates kept and fresh list objects, so it covers both
                yield {'ids': SHAPE_IDS.get(name, SMALL_IDS), 'nw': SMALL_NW, 'shape': name, 'held': held,
                       'ops': [list(o) for o in shape] + [list(o) for o in combo]}
    if length == 1 and not tiny:
        # the same single calls with their sequence argument handed over as a one-shot iterator
        for name, shape in SHAPES.items():
            for o in alpha:
                if o[0] in ('reorder', 'set_children', 'move', 'set_preds', 'set_succs') and not any(isinstance(x, list) and any(isinstance(y, str) for y in x) for x in o):
                    yield {'ids': SHAPE_IDS.get(name, SMALL_IDS), 'nw': SMALL_NW, 'shape': name, 'held': True, 'iter': True,
                           'ops': [list(x) for x in shape] + [list(o)]}
        # the same single calls on tasks of a user subclass of Task (hierarchy / order calls only)
        for name, shape in SHAPES.items():
            for o in alpha:
                if o[0] in ('set_parent', 'set_children', 'floordiv', 'append', 'insert', 'move', 'sort', 'reorder', 'remove', 'new_task'):
                    yield {'ids': SHAPE_IDS.get(name, SMALL_IDS), 'nw': SMALL_NW, 'shape': name, 'held': True, 'sub': True,
                           'ops': [list(x) for x in shape] + [list(o)]}
