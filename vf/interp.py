"""History interpreter: executes abstract mutator calls on real pjplan objects, takes
snapshots through public getters only, and judges every step against the reference model
(vf.graph).  Serves C01, C05, C11, C15, C16 (and builds reachable states for C10).
"""
import collections

from . import graph
from .graph import G, LEGAL, UNJUDGED, ILLEGAL, CLASH

NAMES = ['a', 'b', 'c', 'a', 'b', 'd', 'a', 'c', 'b', 'e', 'a', 'b', 'c', 'd']


class World:
    """The real objects of one history."""

    def __init__(self, ids, nw, names=None, ranks=None, sub=False):
        from pjplan import Task, WBS
        self.BaseTask = Task
        if sub:
            # the caller works with an own subclass of Task: `prio` has a class-level default that some instances
            # override, `label` is computed.  Everything the library does with tasks must work for these too.
            class SubTask(Task):
                prio = 1

                def __len__(self):          # "how many parts has it": a leaf is falsy
                    return len(self.children)

                @property
                def label(self):
                    return '%s/%s' % (self.name, self.prio)
            Task = SubTask
        self.sub = sub
        self.Task, self.WBS = Task, WBS
        self.ts = []
        self.ws = [WBS() for _ in range(nw)]
        self.index = {}
        for k, tid in enumerate(ids):
            nm = (names or NAMES)[k % len(names or NAMES)]
            rk = (ranks[k % len(ranks)] if ranks else (None if k % 4 == 3 else k % 3))
            if sub and k % 2 == 0:
                self.add(Task(tid, nm, rank=rk, prio=(k // 2) % 3))
            else:
                self.add(Task(tid, nm, rank=rk))
        self.widx = {id(w): i for i, w in enumerate(self.ws)}
        self.held_mode = False
        self.held = {}
        self.phase = 0
        self.iter_forms = False      # pass sequence arguments as one-shot iterators / generators

    def add(self, t):
        self.index[id(t)] = len(self.ts)
        self.ts.append(t)
        return len(self.ts) - 1

    def view(self, kind, key, fetch):
        """list object for (kind, owner): a freshly fetched one, or - in held mode - the one fetched the first time
        (the way a caller keeps `kids = p.children` around)"""
        if not self.held_mode:
            return fetch()
        k = (kind, key)
        if k not in self.held:
            self.held[k] = [fetch(), 0]
        h = self.held[k]
        h[1] += 1
        # alternate between the kept object and a fresh one, so that each can go stale with respect to the other
        return h[0] if (h[1] + self.phase) % 2 == 1 else fetch()

    def attrs(self):
        a = {'id': [t.id for t in self.ts], 'name': [t.name for t in self.ts],
             'rank': [t.__dict__.get('rank') for t in self.ts]}
        if self.sub:
            a['prio'] = [getattr(t, 'prio', None) for t in self.ts]
            a['label'] = [getattr(t, 'label', None) for t in self.ts]
        return a

    def foreign(self, marker):
        """what a caller may pass by mistake where a task is expected"""
        if marker == 'F:id':
            return self.ts[0].id
        if marker == 'F:str':
            return 'a'
        if marker == 'F:wbs':
            return self.ws[0]
        if marker == 'F:dict':
            return {'id': 1}
        if marker == 'F:tasks':
            return self.ws[0].tasks            # a query result / task list object instead of its tasks
        if marker == 'F:kids':
            return self.ts[0].children
        return object()


class SnapshotError(Exception):
    pass


def snapshot(world):
    """Abstract copy of the real state via public getters (direct ones only; the recursive
    getters are exercised separately because they do not terminate on a broken state)."""
    # discover objects that are not in the universe yet (half-built tasks of a failed constructor)
    grew = True
    alien = []
    is_task = lambda x: isinstance(x, world.BaseTask)
    while grew:
        grew = False
        for t in list(world.ts):
            rel = [t.parent] + list(t.children) + list(t.predecessors) + list(t.successors)
            for x in rel:
                if x is not None and not is_task(x):
                    alien.append(type(x).__name__)
                elif x is not None and id(x) not in world.index:
                    world.add(x)
                    grew = True
        for w in world.ws:
            for x in w.roots:
                if not is_task(x):
                    alien.append(type(x).__name__)
                elif id(x) not in world.index:
                    world.add(x)
                    grew = True
        if alien:
            break
    g = G([t.id for t in world.ts], len(world.ws))
    g.alien = sorted(set(alien))
    ix = world.index
    for k, t in enumerate(world.ts):
        p = t.parent
        g.parent[k] = None if p is None or not is_task(p) else ix[id(p)]
        g.children[k] = [ix[id(c)] for c in t.children if is_task(c)]
        g.preds[k] = [ix[id(c)] for c in t.predecessors if is_task(c)]
        g.succs[k] = [ix[id(c)] for c in t.successors if is_task(c)]
        w = t.wbs
        g.owner[k] = None if w is None else world.widx.get(id(w), -1)
    for i, w in enumerate(world.ws):
        g.roots[i] = [ix[id(c)] for c in w.roots if is_task(c)]
    return g


# ------------------------------------------------------------------------------ op handling

SEQ_KINDS = {'set_children': 2, 'floordiv': 2, 'move': 2, 'set_preds': 2, 'set_succs': 2, 'lshift': 2,
             'rshift': 2, 'list_lshift': 2, 'list_rshift': 2}
SEQ3_KINDS = ('dep_lshift', 'dep_rshift')      # sequence argument at position 3
# which positions of an op hold task indexes (argument side, not the receiver)
ARG_TASK_POS = {'set_parent': [2], 'append': [2], 'insert': [2], 'remove': [2], 'pred_append': [2],
                'pred_remove': [2], 'succ_append': [2], 'succ_remove': [2], 'wbs_remove': [2],
                'bulk_parent': [3]}
RECV_TASK_POS = {'dep_lshift': [1], 'dep_rshift': [1], 'set_parent': [1], 'set_preds': [1], 'set_succs': [1], 'lshift': [1], 'rshift': [1],
                 'pred_append': [1], 'pred_remove': [1], 'succ_append': [1], 'succ_remove': [1],
                 'pred_remove_all': [1], 'succ_remove_all': [1]}
OWN_POS = {'adopt_children': 1, 'set_children': 1, 'floordiv': 1, 'append': 1, 'insert': 1, 'remove': 1, 'move': 1, 'sort': 1,
           'reorder': 1, 'remove_all': 1, 'list_lshift': 1, 'list_rshift': 1, 'bulk_parent': 1}


def concretise(op, n, nw, shift=0, last_only=False):
    """Resolve an abstract op (indexes modulo the current universe) to a concrete one.
    `shift` is added to the argument-side task indexes (used to search for a legal / illegal variant)."""
    op = list(op)
    kind = op[0]
    if kind in RECV_TASK_POS:
        for p in RECV_TASK_POS[kind]:
            op[p] = op[p] % n
    if kind in OWN_POS:
        o = op[OWN_POS[kind]]
        op[OWN_POS[kind]] = (o % n) if o >= 0 else -((-o - 1) % nw) - 1
    if kind in ('wbs_remove', 'wbs_remove_all'):
        op[1] = op[1] % nw
    if kind == 'adopt_children':
        o2 = op[2]
        op[2] = ((o2 + shift) % n) if o2 >= 0 else -((-o2 - 1) % nw) - 1
    if kind in ARG_TASK_POS:
        for p in ARG_TASK_POS[kind]:
            if op[p] is not None and not graph.is_foreign(op[p]):
                op[p] = (op[p] + shift) % n
    if kind in SEQ_KINDS:
        seq = list(op[2])
        for i, x in enumerate(seq):
            if x is not None and not graph.is_foreign(x):
                s = shift if (not last_only or i == len(seq) - 1) else 0
                seq[i] = (x + s) % n
        op[2] = seq
    if kind in SEQ3_KINDS:
        op[3] = [x if x is None or graph.is_foreign(x) else (x + shift) % n for x in op[3]]
    if kind == 'move':
        for p in (3, 4):
            if op[p] is not None:
                op[p] = op[p] % n
    if kind == 'ctor':
        if op[1] == 'clone':
            op[2] = op[2] % n
        if op[3] is not None:
            op[3] = (op[3] + shift) % n
        for p in (4, 5, 6):
            if op[p] is not None:
                op[p] = [x if x is None or graph.is_foreign(x) else (x + shift) % n for x in op[p]]
    if kind == 'new_task':
        if op[2] is not None:
            op[2] = (op[2] + shift) % n
        for p in (3, 4, 5):
            if op[p] is not None:
                op[p] = [x if x is None or graph.is_foreign(x) else (x + shift) % n for x in op[p]]
    return tuple(tuple(x) if isinstance(x, list) else x for x in op)


def _circle_length(g, c):
    """number of existing links on the longest-shortest chain the call c would turn into a circle (0: none)"""
    kind = c[0]
    if kind in ('pred_append', 'set_preds', 'lshift'):
        nxt = g.succs           # new link arg -> receiver: a circle needs receiver ~> arg
    elif kind in ('succ_append', 'set_succs', 'rshift'):
        nxt = g.preds
    else:
        return 0
    args = [c[2]] if kind.endswith('append') else list(c[2])
    args = [a for a in args if isinstance(a, int) and not isinstance(a, bool)]
    r = c[1]
    if not isinstance(r, int) or r < 0:
        return 0
    dist = {r: 0}
    todo = [r]
    while todo:
        x = todo.pop(0)
        for y in nxt[x]:
            if y not in dist:
                dist[y] = dist[x] + 1
                todo.append(y)
    return max([dist.get(a, 0) for a in args] + [0])


def resolve(op, g, nw, attrs):
    """Strip the bias flag and pick the concrete variant it asks for."""
    flag = ''
    if isinstance(op[-1], str) and op[-1] in ('L', 'I', 'J', 'C', '') and op[0] not in ('sort',):
        flag = op[-1]
        op = op[:-1]
    elif op[0] == 'sort' and len(op) == 5:
        flag = op[-1]
        op = op[:-1]
    n = g.n
    base = concretise(op, n, nw)
    if flag == '' or n == 0:
        return base, graph.effect(g, base, attrs)
    first = None
    if flag == 'C':
        # the refused variant that would close the LONGEST dependency circle (a link back along a chain of links)
        best = None
        for j in range(n):
            c = concretise(op, n, nw, j)
            e = graph.effect(g, c, attrs)
            if first is None:
                first = (c, e)
            if e.cls in (ILLEGAL, CLASH):
                d = _circle_length(g, c)
                if best is None or d > best[0]:
                    best = (d, c, e)
        return (best[1], best[2]) if best else first
    for j in range(n):
        c = concretise(op, n, nw, j, last_only=(flag == 'J'))
        e = graph.effect(g, c, attrs)
        if first is None:
            first = (c, e)
        if flag == 'L' and e.cls == LEGAL:
            return c, e
        if flag == 'I' and e.cls in (ILLEGAL, CLASH):
            return c, e
        if flag == 'J' and e.cls in (ILLEGAL, CLASH) and c[0] in SEQ_KINDS and len(c[2]) >= 2:
            pre = graph.effect(g, c[:2] + (c[2][:-1],) + c[3:], attrs)
            if pre.cls == LEGAL:
                return c, e
    return first


def _form(seq, form):
    if form == 'single' and len(seq) == 1:
        return seq[0]
    if form == 'tuple':
        return tuple(seq)
    return list(seq)


def run_op(world, op):
    """Execute a concrete op on the real objects.  Returns the call's return value."""
    ts, ws = world.ts, world.ws
    k = op[0]
    T = lambda i: world.foreign(i) if graph.is_foreign(i) else ts[i]

    def own(i):
        return ts[i] if i >= 0 else ws[-i - 1]

    def chl(i):
        o = own(i)
        return world.view('children', i, (lambda: o.children) if i >= 0 else (lambda: o.roots))

    def preds(i):
        return world.view('preds', i, lambda: ts[i].predecessors)

    def succs(i):
        return world.view('succs', i, lambda: ts[i].successors)

    def seq(s):
        return [None if x is None else T(x) for x in s]

    def arg(lst):
        # the documented argument type is Iterable: a one-shot iterator is as good as a list
        return iter(list(lst)) if world.iter_forms else list(lst)

    if k == 'set_parent':
        T(op[1]).parent = None if op[2] is None else T(op[2]); return None
    if k == 'set_children':
        o = own(op[1]); s = seq(op[2])
        val = s[0] if (len(s) == 1 and len(op) > 3 and op[3] == 'single') else (tuple(s) if len(op) > 3 and op[3] == 'tuple' else
                                                                                   (x for x in s) if world.iter_forms else s)
        if op[1] >= 0:
            o.children = val
        else:
            o.roots = val
        return None
    if k == 'adopt_children':
        o = own(op[1])
        src = own(op[2])
        live = src.children if op[2] >= 0 else src.roots       # the live list object itself is the value
        if op[1] >= 0:
            o.children = live
        else:
            o.roots = live
        return None
    if k == 'append':
        return chl(op[1]).append(T(op[2]))
    if k == 'insert':
        return chl(op[1]).insert(op[3], T(op[2]))
    if k == 'remove':
        return chl(op[1]).remove(T(op[2]))
    if k == 'move':
        l = chl(op[1]); s = seq(op[2])
        kw = {}
        if op[3] is not None:
            kw['before'] = T(op[3])
        if op[4] is not None:
            kw['after'] = T(op[4])
        return l.move((arg(s) if len(s) != 1 else s[0]), **kw)
    if k == 'sort':
        return chl(op[1]).sort(list(op[2]) if isinstance(op[2], tuple) else op[2], reverse=op[3])
    if k == 'reorder':
        return chl(op[1]).reorder(arg(op[2]))
    if k == 'remove_all':
        return chl(op[1]).remove_all(id_in_=list(op[2]))
    if k == 'set_preds':
        s = seq(op[2]); T(op[1]).predecessors = s[0] if len(s) == 1 and len(op) > 3 and op[3] == 'single' else arg(s); return None
    if k == 'set_succs':
        s = seq(op[2]); T(op[1]).successors = s[0] if len(s) == 1 and len(op) > 3 and op[3] == 'single' else arg(s); return None
    if k == 'pred_append':
        return preds(op[1]).append(T(op[2]))
    if k == 'pred_remove':
        return preds(op[1]).remove(T(op[2]))
    if k == 'succ_append':
        return succs(op[1]).append(T(op[2]))
    if k == 'succ_remove':
        return succs(op[1]).remove(T(op[2]))
    if k == 'pred_remove_all':
        return preds(op[1]).remove_all(id_in_=list(op[2]))
    if k == 'succ_remove_all':
        return succs(op[1]).remove_all(id_in_=list(op[2]))
    if k == 'floordiv':
        s = seq(op[2]); return own(op[1]) // (s if len(s) != 1 else s[0])
    if k == 'lshift':
        s = seq(op[2]); return T(op[1]) << (s if len(s) != 1 else s[0])
    if k == 'rshift':
        s = seq(op[2]); return T(op[1]) >> (s if len(s) != 1 else s[0])
    if k == 'list_lshift':
        s = seq(op[2]); return chl(op[1]) << (s if len(s) != 1 else s[0])
    if k == 'list_rshift':
        s = seq(op[2]); return chl(op[1]) >> (s if len(s) != 1 else s[0])
    if k in ('dep_lshift', 'dep_rshift'):
        lst = preds(op[1]) if op[2] == 'preds' else succs(op[1])
        s = seq(op[3])
        a = s if len(s) != 1 else s[0]
        return (lst << a) if k == 'dep_lshift' else (lst >> a)
    if k == 'bulk_parent':
        q = chl(op[1])(id_in_=list(op[2]))
        q.parent = None if op[3] is None else T(op[3]); return None
    if k == 'wbs_remove':
        return ws[op[1]].remove(T(op[2]))
    if k == 'wbs_remove_all':
        return ws[op[1]].remove_all(id_in_=list(op[2]))
    if k == 'ctor':
        kw = {}
        if op[3] is not None:
            kw['parent'] = T(op[3])
        if op[4] is not None:
            kw['children'] = seq(op[4])
        if op[5] is not None:
            kw['predecessors'] = seq(op[5])
        if op[6] is not None:
            kw['successors'] = seq(op[6])
        extra = op[7]
        if extra == 'wbs':
            kw['wbs'] = ws[0]
        elif extra == 'all_children':
            kw['all_children'] = []
        elif extra == 'id' and op[1] == 'clone':
            kw['id'] = 4711
        elif extra:
            kw['zone'] = 5
        t = world.Task(op[2], 'n', rank=0, **kw) if op[1] == 'new' else ts[op[2]].clone(**kw)
        world.add(t)
        return t
    if k == 'new_task':
        kw = {}
        if op[2] is not None:
            kw['parent'] = T(op[2])
        if op[3] is not None:
            kw['children'] = seq(op[3])
        if op[4] is not None:
            kw['predecessors'] = seq(op[4])
        if op[5] is not None:
            kw['successors'] = seq(op[5])
        t = world.Task(op[1], 'n', rank=0, **kw)
        world.add(t)
        return t
    raise AssertionError('unknown op %r' % (op,))


HIER = {'adopt_children', 'set_parent', 'set_children', 'floordiv', 'append', 'insert', 'remove', 'move', 'sort', 'reorder',
        'remove_all', 'bulk_parent', 'wbs_remove', 'wbs_remove_all', 'new_task', 'ctor'}
DEPS = {'dep_lshift', 'dep_rshift', 'set_preds', 'set_succs', 'lshift', 'rshift', 'pred_append', 'pred_remove', 'succ_append',
        'succ_remove', 'pred_remove_all', 'succ_remove_all', 'list_lshift', 'list_rshift'}


def _flat(x):
    for y in x:
        if isinstance(y, (list, tuple)):
            yield from _flat(y)
        else:
            yield y


def _matches(pre, exp, real):
    """Does the real post-state equal the documented one?  Children / roots as sequences;
    dependency lists as multisets when the call changes them, untouched lists identical."""
    if exp.n != real.n:
        return 'universe-size'
    if exp.parent != real.parent:
        return 'parent'
    if exp.children != real.children:
        return 'children'
    if exp.roots != real.roots:
        return 'roots'
    for name in ('preds', 'succs'):
        E, R, P = getattr(exp, name), getattr(real, name), getattr(pre, name)
        for k in range(exp.n):
            e, r = E[k], R[k]
            if e == r:
                continue
            p0 = P[k] if k < pre.n else []
            if e == p0:
                return name + '-of-untouched-task'
            if sorted(e) != sorted(r):
                return name
    return None


def _diff_where(pre, post):
    out = []
    for name in ('parent', 'children', 'preds', 'succs', 'roots', 'owner'):
        if getattr(pre, name) != getattr(post, name):
            out.append(name)
    return '+'.join(out)


class Report:
    def __init__(self):
        self.viol = []          # (property, signature, detail)
        self.trace = []         # (concrete op, outcome, class, note)
        self.steps = 0
        self.labels = collections.Counter()
        self.flags = collections.Counter()   # facts for the non-triviality rules
        self.cut = False
        self.final = None
        self.world = None


def _lookup_checks(world, g, rep, op_desc):
    """C05 differential: wbs[id] and WBS.tasks against the model's enumeration of the real lists."""
    ids = sorted(set(g.ids), key=repr)[:8] + [987654, -5]
    for wi, w in enumerate(world.ws):
        exp = g.dfs_order(wi)
        try:
            got = [world.index.get(id(t), -1) for t in w.tasks]
        except RecursionError:
            rep.viol.append(('C01', 'C01:recursive-getter-overflows:WBS.tasks', op_desc)); return
        if len(set(got)) != len(got):
            rep.viol.append(('C05', 'C05:WBS.tasks-lists-a-member-more-than-once', dict(op=op_desc, got=got)))
            return
        if got != exp:
            rep.viol.append(('C05', 'C05:WBS.tasks-is-not-the-depth-first-enumeration', dict(op=op_desc, got=got, expected=exp)))
            return
        by = {}
        for k in exp:
            by.setdefault(g.ids[k], []).append(k)
        for i in ids:
            try:
                r = w[i]
                got1 = world.index.get(id(r), -1)
                err = None
            except RuntimeError as e:
                got1, err = None, e
                if isinstance(e, RecursionError):
                    rep.viol.append(('C05', 'C05:lookup-overflows', op_desc)); return
            except Exception as e:
                rep.viol.append(('C05', 'C05:lookup-raises-%s' % type(e).__name__, dict(op=op_desc, id=i))); return
            want = by.get(i, [])
            if len(want) == 1:
                if got1 != want[0]:
                    rep.viol.append(('C05', 'C05:lookup-returns-wrong-task', dict(op=op_desc, id=i))); return
            elif len(want) == 0:
                if err is None:
                    rep.viol.append(('C05', 'C05:lookup-of-absent-id-returns', dict(op=op_desc, id=i))); return


def _getter_checks(world, g, rep, op_desc):
    """all_parents / all_children agree with the direct relations (they are how users observe the forest)."""
    for k, t in enumerate(world.ts):
        try:
            ap = [world.index.get(id(x), -1) for x in t.all_parents]
            ac = [world.index.get(id(x), -1) for x in t.all_children]
        except RecursionError:
            rep.viol.append(('C01', 'C01:recursive-getter-overflows', op_desc)); return
        if ap != g.ancestors(k):
            rep.viol.append(('C01', 'C01:all_parents-disagrees-with-parent-chain', dict(op=op_desc, task=k))); return
        if ac != g.subtree(k)[1:]:
            rep.viol.append(('C01', 'C01:all_children-disagrees-with-children-lists', dict(op=op_desc, task=k))); return


def run_history(case, skip=None):
    """Execute case = {'ids': [...], 'nw': int, 'ops': [...]} and judge every step.

    skip: optional callable(concrete_op, effect, g) -> finding id or None; a step for which it
    returns an id is not executed (known finding excluded by construction) and counted.
    """
    rep = Report()
    world = World(case['ids'], case.get('nw', 3), case.get('names'), case.get('ranks'), sub=bool(case.get('sub')))
    world.held_mode = bool(case.get('held'))
    world.phase = 1 if case.get('held') == 2 else 0
    world.iter_forms = bool(case.get('iter'))
    rep.world = world
    nw = len(world.ws)
    g = snapshot(world)
    released_ever = set()
    polluted = False      # an invariant broke earlier: the model's predictions are no longer trusted,
    seen_sigs = set()     # only the invariants and the C15 snapshot comparison go on (max_after more steps)
    after_pollution = 0
    queue = list(case['ops'])
    while queue:
        raw = queue.pop(0)
        raw = tuple(tuple(x) if isinstance(x, list) else x for x in raw)
        attrs = world.attrs()
        if polluted:
            after_pollution += 1
            if after_pollution > 8:
                break
            try:
                cop, eff = resolve(raw, g, nw, attrs)
            except Exception:
                continue
            eff = graph.Effect(UNJUDGED, [g], (), 'state-already-broken')
        else:
            cop, eff = resolve(raw, g, nw, attrs)
        if skip is not None:
            fid = skip(cop, eff, g)
            if fid:
                rep.flags['excluded:' + fid] += 1
                continue
        kind = cop[0]
        pre = g
        exc = None
        try:
            ret = run_op(world, cop)
        except Exception as e:       # includes RecursionError
            exc = e
            ret = None
        rep.steps += 1
        outcome = 'returned' if exc is None else 'raised'
        desc = dict(op=list(cop), outcome=outcome if exc is None else 'raised ' + type(exc).__name__,
                    model=eff.cls, note=eff.note)
        rep.trace.append(desc)
        rep.labels['%s:%s:%s' % (kind, outcome, eff.cls)] += 1
        try:
            post = snapshot(world)
        except RecursionError:
            if not polluted:
                rep.viol.append(('C01', 'C01:getter-overflows-after:%s(%s)' % (kind, outcome), desc))
            rep.cut = True
            break
        nviol_before = len(rep.viol)
        sigtail = '%s(%s,%s%s)' % (kind, outcome, eff.cls, ',' + eff.note if eff.note else '')
        # ---- facts for the non-triviality rules
        attached = 0 if polluted else sum(1 for k in range(pre.n) if pre.container(k) is not None)
        if kind in HIER:
            rep.flags['hier'] += 1
        if kind in DEPS:
            rep.flags['dep'] += 1
        if eff.cls in (ILLEGAL, CLASH):
            rep.flags['illegal-arg'] += 1
        if attached >= 3:
            rep.flags['big'] += 1
        if exc is not None:
            rep.flags['raised'] += 1
            if attached >= 3:
                rep.flags['raised-on-big'] += 1
            if kind in SEQ_KINDS and len(cop[2]) >= 2 and not polluted:
                first_ok = graph.effect(pre, cop[:2] + (cop[2][:1],) + cop[3:], attrs).cls == LEGAL
                if first_ok:
                    rep.flags['raised-late-offender'] += 1
        if eff.cls == CLASH:
            rep.flags['clash-attempt'] += 1
            tgt = None
            if kind in ('set_parent',) and cop[2] is not None:
                tgt = cop[2]
            elif kind in OWN_POS and cop[OWN_POS[kind]] >= 0:
                tgt = cop[OWN_POS[kind]]
            if tgt is not None and pre.wbs_of(tgt) is not None:
                rep.flags['clash-below-member'] += 1
        # ---- C15 / C05 rejection type / C11 re-attachment
        if exc is not None:
            if isinstance(exc, RecursionError):
                rep.viol.append(('C01', 'C01:call-overflows-the-stack:' + sigtail, desc))
            if post.full_key() != pre.full_key():
                rep.viol.append(('C15', 'C15:state-changed(%s):%s:%s' % (_diff_where(pre, post), type(exc).__name__, sigtail), desc))
            if eff.cls == CLASH and not (isinstance(exc, RuntimeError) and not isinstance(exc, RecursionError)):
                rep.viol.append(('C05', 'C05:duplicate-rejected-with-%s:%s' % (type(exc).__name__, sigtail), desc))
            # (assignments that replace members are left out: the code may refuse them for id clashes with the
            #  very tasks being replaced, which C11 does not speak about)
            if eff.cls == LEGAL and kind in ('append', 'set_parent', 'insert', 'floordiv'):
                movers = [cop[2]] if kind in ('append', 'set_parent', 'insert') else [x for x in cop[2] if x is not None]
                tgt = cop[1] if kind != 'set_parent' else cop[2]
                tw = None
                if tgt is not None:
                    tw = (-tgt - 1) if tgt < 0 else pre.wbs_of(tgt)
                if kind == 'set_parent':
                    movers = [cop[1]]
                if tw is not None and any(m in released_ever and pre.wbs_of(m) is None for m in movers):
                    rep.viol.append(('C11', 'C11:released-task-cannot-be-attached-to-a-wbs:' + sigtail, desc))
        else:
            if eff.cls == LEGAL:
                why = None
                for cand in eff.cands:
                    why = _matches(pre, cand, post)
                    if why is None:
                        break
                if why is not None:
                    rep.viol.append(('C16', 'C16:effect-differs(%s):%s' % (why, sigtail), desc))
                else:
                    lst_len = 0
                    if kind in OWN_POS:
                        lst_len = len(pre.clist(graph._ref(cop[OWN_POS[kind]])))
                    moved = 0
                    if kind in ('set_parent', 'append', 'insert'):
                        mv = cop[1] if kind == 'set_parent' else cop[2]
                        moved = len(pre.subtree(mv))
                    if lst_len >= 3 or moved >= 2:
                        rep.flags['legal-nontrivial'] += 1
                    if moved >= 2 and post.key() != pre.key():
                        rep.flags['subtree-move'] += 1
            elif eff.cls == CLASH:
                rep.viol.append(('C05', 'C05:duplicate-id-accepted:' + sigtail, desc))
        # ---- WBS.remove(t) answered True: whatever the state was, t and its subtree are out of that WBS and ownerless
        if exc is None and kind == 'wbs_remove' and ret is True:
            t_, w_ = cop[2], cop[1]
            still = [x for x in post.subtree(t_) if post.owner[x] == w_ or x in post.members(w_)]
            if still:
                rep.viol.append(('C11', 'C11:task-still-owned-or-listed-after-WBS.remove-returned-True' +
                                 ('[after-earlier-violation]' if polluted else ''), dict(desc, tasks=still)))
        # ---- invariants on the real state, whether the call returned or raised
        if post.alien:
            rep.viol.append(('C01', 'C01:relation-lists-an-object-that-is-not-a-task:after:' + sigtail, dict(desc, types=post.alien)))
            rep.cut = True
            break
        for clause in graph.invariants(post):
            rep.viol.append((clause[:3], '%s:after:%s' % (clause, sigtail), desc))
        if not polluted and not any(p in ('C05', 'C11') for p, _, _ in rep.viol):
            try:
                _lookup_checks(world, post, rep, desc)      # C05's own clauses are judged even next to a C01 finding
            except Exception:
                pass
        if not polluted and not any(p in ('C01', 'C05', 'C11') for p, _, _ in rep.viol):
            _getter_checks(world, post, rep, desc)
        # ---- C11 bookkeeping
        if exc is None and eff.cls == LEGAL:
            for r in eff.released:
                if pre.wbs_of(r) is not None:
                    released_ever.add(r)
                    rep.flags['released'] += 1
                    # "a task removed from a WBS ... reports no owner, no longer appears in the WBS"
                    still = [x for x in eff.cands[0].subtree(r) if x < post.n and (post.owner[x] is not None or post.wbs_of(x) is not None)]
                    if still:
                        rep.viol.append(('C11', 'C11:removed-task-still-owned-or-listed:' + sigtail, dict(desc, tasks=still)))
                        break
            if kind in ('append', 'set_parent', 'insert', 'set_children', 'floordiv'):
                movers = ([cop[1]] if kind == 'set_parent' else [cop[2]] if kind in ('append', 'insert')
                          else [x for x in cop[2] if x is not None])
                for m in movers:
                    if m in released_ever and pre.wbs_of(m) is None and post.wbs_of(m) is not None:
                        rep.flags['reattached-released'] += 1
                    if pre.wbs_of(m) is None and post.wbs_of(m) is not None and len(pre.subtree(m)) >= 2:
                        rep.flags['subtree-adopted'] += 1
        g = post
        # a broken invariant pollutes the state: from there on the model is not consulted any more (no C16 / C05
        # must-raise judgement), only the invariants of the real state and the C15 snapshot comparison continue
        # for a few steps - each clause is reported once per history.  C15 / C16 findings alone do not pollute.
        if polluted:
            kept = []
            for v_ in rep.viol[nviol_before:]:
                key = v_[1].split(':after:')[0]
                if key not in seen_sigs:
                    seen_sigs.add(key)
                    kept.append((v_[0], v_[1] if v_[1].endswith('[after-earlier-violation]') else v_[1] + '[after-earlier-violation]', v_[2]))
            rep.viol[nviol_before:] = kept
        elif any(p in ('C01', 'C05', 'C11') for p, _, _ in rep.viol):
            polluted = True
            rep.cut = True
            # probe what C11 promises about removal, on the tasks the offending call named: remove each from the WBS
            # it reports, then attach it to another WBS (executed like any other step, invariants only)
            named = [x for x in _flat(cop[1:]) if isinstance(x, int) and not isinstance(x, bool) and 0 <= x < post.n][:2]
            probes = []
            for t in named:
                w = post.owner[t] if post.owner[t] is not None and post.owner[t] >= 0 else post.wbs_of(t)
                if w is not None:
                    others = [x for x in post.members(w) if x != t and x not in post.subtree(t) and t not in post.subtree(x)]
                    if others:
                        probes.append(('set_parent', t, others[0], ''))      # an ordinary move in between
                    probes.append(('wbs_remove', w, t, ''))
                    probes.append(('append', -((w + 1) % nw) - 1, t, ''))
            queue = probes + queue[:3]
            for v_ in rep.viol:
                seen_sigs.add(v_[1].split(':after:')[0])
    rep.final = g
    return rep
