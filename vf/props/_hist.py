"""Shared plumbing of the history properties C01, C05, C11, C15, C16."""
from .. import graph, histgen, interp
from ..collect import Result
from ..runner import Stream, is_open

NT_RULES = {
    'C01': lambda f: f['hier'] >= 1 and f['dep'] >= 1 and f['big'] >= 1 and f['illegal-arg'] >= 1,
    'C05': lambda f: f['clash-below-member'] >= 1,
    'C11': lambda f: f['reattached-released'] >= 1 or f['subtree-adopted'] >= 1,
    'C15': lambda f: f['raised-on-big'] >= 1,
    'C16': lambda f: f['legal-nontrivial'] >= 1,
}


def skip_known_c15(cop, eff, g):
    """Exclusion predicates of open known findings (stated over the model, evaluated before the call).
    F21 only concerns C15; the other history properties execute those calls (the state stays well-formed)."""
    kind = cop[0]
    if kind in ('list_lshift', 'list_rshift', 'bulk_parent') and eff.cls != interp.LEGAL and is_open('F21'):
        lst = g.clist(graph._ref(cop[1]))
        receivers = len(lst) if kind != 'bulk_parent' else len([x for x in lst if g.ids[x] in cop[2]])
        if receivers >= 2:
            return 'F21'
    if kind in ('dep_lshift', 'dep_rshift') and eff.cls != interp.LEGAL and is_open('F21'):
        if len(g.preds[cop[1]] if cop[2] == 'preds' else g.succs[cop[1]]) >= 2:
            return 'F21'
    if kind == 'append' and cop[2] in ('F:tasks', 'F:kids') and is_open('F21'):
        return 'F21'        # children.append(<task list>) is the bulk form "list.parent = owner"
    return None


def make_check(prop):
    rule = NT_RULES[prop]

    def check(case, exclude=True):
        rep = interp.run_history(case, skip_known_c15 if (exclude and prop == 'C15') else None)
        res = Result()
        res.steps = rep.steps
        for p, sig, detail in rep.viol:
            if p == prop:
                res.v(sig, dict(step=detail, trace=rep.trace[-6:]))
        for l, c in rep.labels.items():
            res.labels += [l] * c
        for f, c in rep.flags.items():
            if f.startswith('excluded:'):
                res.excluded += [f[9:]] * c
        if rep.cut and not res.viol:
            res.label('history-cut-by-other-property')
        for f in ('raised-late-offender', 'clash-attempt', 'clash-below-member', 'released', 'reattached-released',
                  'subtree-adopted', 'subtree-move', 'legal-nontrivial'):
            if rep.flags[f]:
                res.label('has:' + f)
        res.nontrivial = bool(rule(rep.flags))
        res.sample = dict(ids=case['ids'], trace=[(t['op'], t['outcome'], t['model']) for t in rep.trace[:40]])
        return res
    return check


def hist_streams(prop, focus, quick_n, thorough_n, exhaustive_len=(1, 2)):
    chk = make_check(prop)
    out = [Stream('random-' + focus, chk, strategy=lambda: histgen.history(focus),
                  examples={'quick': quick_n, 'thorough': thorough_n})]
    out.append(Stream('random-large-universe', chk, strategy=lambda: histgen.history(focus, large=True),
                      examples={'quick': 400, 'thorough': 6000}))
    if focus != 'general':
        out.append(Stream('random-general', chk, strategy=lambda: histgen.history('general'),
                          examples={'quick': quick_n // 3, 'thorough': thorough_n // 3}))

    def exh(tier):
        yield from histgen.small_histories(1, reduced=False)
        yield from histgen.small_histories(2, tiny=True)
        yield from histgen.view_histories()
        if tier == 'thorough':
            yield from histgen.mixed_histories()
    out.append(Stream('small-scope', chk, exhaustive=exh))
    return out
