"""Shared plumbing of the scheduling properties C02, C03, C04, C07, C08, C09."""
import collections

from .. import sched
from ..collect import Result
from ..runner import Stream, is_open


def excluded_case(case, prop):
    """Exclusion predicates of open known findings for whole scheduling cases (evaluated on the spec)."""
    return None


def make_check(prop, oracle, nontrivial):
    def check(case, exclude=True):
        res = Result()
        if exclude:
            fid = excluded_case(case, prop)
            if fid:
                res.skipped = True
                res.excluded.append(fid)
                return res
        o = sched.run(case)
        res.labels += sched.spec_labels(o)
        if o.error is not None:
            res.label('calc-raised:' + type(o.error).__name__)      # classification is C14's business
            return res
        if not sched.complete(o):
            res.label('result-incomplete')                           # mainly C06's business
            if prop == 'C09':
                # a dependency whose end has no dates cannot be met
                missing = [i for i in o.m.order if o.T[i] is None or o.T[i]['start'] is None or o.T[i]['end'] is None]
                linked = [i for i in missing if o.m.preds[i] or o.m.succs[i]]
                if linked:
                    res.v('C09:dependency-involves-a-task-without-dates', dict(tasks=linked))
            return res
        facts = collections.Counter()
        oracle(o, res.v, facts)
        for k in facts:
            res.label('fact:' + k)
        res.nontrivial = bool(nontrivial(o, facts))
        res.sample = sched.summary_sample(o)
        return res
    return check
