"""C01 — hierarchy and dependency graph stay well-formed under any mutation history."""
from ._hist import hist_streams

ID = 'C01'
RULE = ('Histories of 1-40 public mutator calls (random, weighted, with a structure-building prefix), legal and illegal '
        'arguments, executed on real objects; plus the small scope: EVERY 1-step history over the full small alphabet '
        '(2 252 calls over 4 tasks / 2 WBSs) and every 2-step history over a tiny alphabet (116 calls) from 10 seed shapes '
        '(thorough: also every 2-step history mixing the reduced alphabet with the tiny one, both orders).  After EVERY '
        'step (returned or raised) the forest / symmetry / acyclicity / no-ancestor-link invariants are recomputed from '
        'public getters.  Non-trivial = history with >=1 hierarchy edit and >=1 dependency edit on a graph with >=3 '
        'attached tasks and >=1 call whose argument is illegal by the reference model; distinct = distinct (universe, '
        'op list).')
ASSUMPTIONS = ['invariant checker and reference model in vf/graph.py are correct',
               'a history is cut at the first violation of any history property (state is polluted)']

FUZZ = [('random-general', 4000)]       # thorough tier: coverage-guided sub-run (vf/fuzz.py), runs per process x 16 processes


def streams(tier):
    return hist_streams('C01', 'general', 8000, 80000)
