"""C02 — forward schedules never start a task before its prerequisites are finished."""
from .. import sched
from ..runner import Stream
from ._sched import make_check

ID = 'C02'
RULE = ('Generated acyclic WBS specs (1-8 tasks quick / up to 12 thorough; hierarchy up to depth 4; links on leaves and '
        'summaries oriented by a random rank independent of WBS order, so tasks are reached through dependency edges '
        'before their parents; estimates/spent/min_start/milestones/fixed dates) x resource calendars x balance x '
        'project start x clock, scheduled forward under a controlled clock.  Oracle: for every unfixed non-milestone '
        'leaf, start day and every usage row >= max(day of project start, clock, min_start, end of every leaf under '
        'every predecessor of the task and of its ancestors); milestones sit exactly at the latest prerequisite end '
        '(or project start).  Non-trivial = case containing a leaf with >=1 inherited and >=1 own prerequisite in a '
        'WBS of depth >=2; distinct = distinct case.')
ASSUMPTIONS = ['leaf-expansion model in vf/specs.py is the dependency relation of the statement',
               'calendar validity bounds are day-aligned (non-aligned bounds are C17\'s business)',
               'fixed end with open start and fixed starts with a time of day are not generated (statements collide, DESIGN F12)']


def _oracle(o, v, facts):
    sched.c02(o, v)
    m = o.m
    for i in m.order:
        if m.is_leaf(i) and not m.t[i]['milestone'] and m.t[i]['start'] is None:
            inh, own = m.inherited_prereq_leaves(i), m.own_prereq_leaves(i)
            if inh and own:
                facts['leaf-with-own-and-inherited-prerequisites'] += 1
            elif inh:
                facts['leaf-with-inherited-prerequisites-only'] += 1
            elif own:
                facts['leaf-with-own-prerequisites-only'] += 1
        if m.is_leaf(i) and m.t[i]['milestone'] and m.prereq_leaves(i):
            facts['milestone-with-prerequisites'] += 1


def _nt(o, facts):
    return facts['leaf-with-own-and-inherited-prerequisites'] >= 1 and max(o.m.depth(i) for i in o.m.order) >= 1


check = make_check('C02', _oracle, _nt)


def streams(tier):
    n = 8 if tier == 'quick' else 12
    return [Stream('forward', check, strategy=lambda: sched.fwd_case(max_tasks=n, min_tasks=1, taskdep=True, end_only=True, lookalike_ids=True),
                   examples={'quick': 10000, 'thorough': 100000}),
            Stream('large', check, strategy=lambda: sched.fwd_case(max_tasks=30, min_tasks=13), examples={'quick': 400, 'thorough': 6000})]
