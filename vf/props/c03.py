"""C03 — schedules never over-allocate a resource."""
from .. import sched
from ..runner import Stream
from ._sched import make_check

ID = 'C03'
RULE = ('Generated schedulable WBS specs x resource sets (default / weekly / weekly-by-dict with zero days / dated|weekly '
        '/ scaled / divided / weekly-minus-dated / weekly+dated / fixed / bounded-validity calendars, fractional capacities) '
        'x both schedulers x both balance settings.  Oracle in exact rationals: every row positive, on the resource named '
        'by its task, at a midnight, on a day with capacity; per (resource, day) [balance on] or per (resource, day, task) '
        '[balance off] sums <= capacity + 1e-9; reserved()/rows(filter) agree with rows(); every named resource present, '
        'non-supplied ones are Mon-Fri 8.  Non-trivial = >=2 tasks share a (resource, day) that is filled to capacity under '
        'a non-uniform calendar; distinct = distinct case.  Stream "crowded": all tasks on one resource, balance on.')
ASSUMPTIONS = ['capacity of a day is Resource.get_available_units(midnight); calendar bounds are day-aligned']


def _oracle(o, v, facts):
    sched.c03(o, v)
    per_day = {}
    for rn, d, tid, u in o.rows:
        per_day.setdefault((rn, d), set()).add(tid)
    for (rn, d), tids in per_day.items():
        if len(tids) >= 2:
            facts['shared-day'] += 1
            if abs(o.used[(rn, d)] - sched.cap(o, rn, d)) <= sched.EPS:
                facts['shared-day-filled'] += 1
                cs = o.case['res'].get(str(rn))
                if cs is not None and cs[0] not in ('default', 'fixed'):
                    facts['shared-day-filled-nonuniform'] += 1


def _nt(o, facts):
    return facts['shared-day-filled-nonuniform'] >= 1


check = make_check('C03', _oracle, _nt)


def streams(tier):
    n = 8 if tier == 'quick' else 12
    return [Stream('both-schedulers', check, strategy=lambda: sched.any_case(max_tasks=n, min_tasks=1),
                   examples={'quick': 5000, 'thorough': 80000}),
            Stream('crowded', check, strategy=lambda: sched.any_case(max_tasks=n, min_tasks=3, palette_max=1, balance=True),
                   examples={'quick': 2500, 'thorough': 40000}),
            Stream('large', check, strategy=lambda: sched.any_case(max_tasks=30, min_tasks=13), examples={'quick': 400, 'thorough': 6000})]
