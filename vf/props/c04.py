"""C04 — reserved work equals remaining work and agrees with the task's dates."""
from .. import sched
from ..runner import Stream
from ._sched import make_check

ID = 'C04'
RULE = ('Generated schedulable WBS specs (integer and fractional estimates/spent, spent above estimate, zero work, missing '
        'values with default_estimate 0/4, completed and started leaves) x calendars x both schedulers x both balance '
        'settings.  Oracle: for every leaf that is neither milestone nor completed, sum of its rows == max(estimate - '
        'spent, 0) (exact rationals, 1e-9), <=1 row per day, rows within [start day, end), forward: none before the clock '
        'day, start day == first row day (scheduler-chosen start), last row day < end <= last row day + 24h; backward: '
        'first row day <= start <= first row day + 24h; milestones / completed / summaries have no rows; fixed dates '
        'returned unchanged.  Non-trivial = some task spans >=2 days with a partially booked first or last day, or has '
        'fractional work; distinct = distinct case.')
ASSUMPTIONS = ['calendar bounds day-aligned', 'fixed starts are midnights; fixed end with open start not generated (F12)']


def _oracle(o, v, facts):
    sched.c04(o, v)
    for i, rws in o.rows_by_task.items():
        ds = sorted(d for _, d, _ in rws)
        if len(ds) >= 2:
            rn = rws[0][0]
            for d in (ds[0], ds[-1]):
                if o.used_task[(rn, d, i)] < sched.cap(o, rn, d) - sched.EPS:
                    facts['multi-day-with-partial-edge-day'] += 1
        w = sum(u for _, _, u in rws)
        if w != int(w):
            facts['fractional-work'] += 1


def _nt(o, facts):
    return facts['multi-day-with-partial-edge-day'] >= 1 or facts['fractional-work'] >= 1


check = make_check('C04', _oracle, _nt)


def streams(tier):
    n = 8 if tier == 'quick' else 12
    return [Stream('both-schedulers', check, strategy=lambda: sched.any_case(max_tasks=n, min_tasks=1, taskdep=True, lookalike_ids=True),
                   examples={'quick': 6000, 'thorough': 100000}),
            Stream('large', check, strategy=lambda: sched.any_case(max_tasks=30, min_tasks=13), examples={'quick': 400, 'thorough': 6000})]
