"""C05 — task ids stay unique inside every WBS and tree; lookup by id is exact."""
from ._hist import hist_streams

ID = 'C05'
RULE = ('Histories biased to attach / adopt / move calls over universes where several task objects share an id '
        '(id pool = half the universe), attachment at root level and below member tasks; after every step ids are '
        'pairwise distinct inside every WBS and every detached tree (recomputed from the real parent/children/root '
        'lists); a call whose documented effect would only create a duplicate must raise RuntimeError; wbs[id] '
        'returns the unique member / raises RuntimeError for absent ids; WBS.tasks equals the depth-first '
        'enumeration of the real lists.  Non-trivial = history with >=1 attempted clash whose attachment point lies '
        'below a WBS member; distinct = distinct (universe, op list).')
ASSUMPTIONS = ['reference model in vf/graph.py decides which calls would create a duplicate id']


def streams(tier):
    return hist_streams('C05', 'collide', 8000, 80000)
