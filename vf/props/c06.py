"""C06 — scheduling is pure and deterministic in WBS, resources, start and clock."""
import copy
from datetime import timedelta

from hypothesis import strategies as st

from .. import env, sched, specs
from ..collect import Result
from ..env import dt, plain
from ..runner import Stream, is_open
from ..specs import Model, day, iso

ID = 'C06'
RULE = ('Generated schedulable specs (both schedulers) with custom task attributes and public WBS-level attributes.  '
        '(1) deep snapshot of the input WBS (hierarchy, sibling order, links, to_dict() of every task, owner identity, WBS '
        'attributes) equal before/after calc; (2) the result is a different WBS with different task objects, same ids in '
        'the same order, same hierarchy / sibling order / link id pairs / custom and WBS attributes, every task has start '
        'and end and reports the result as owner; (3) calc twice on the same scheduler and once on a fresh scheduler with '
        'freshly built equal resources give equal (id, start, end, estimate, spent) lists and equal row lists in order; '
        '(4) forward: results under two clocks N1 < N2 <= midnight of the project-start day are equal.  Non-trivial = WBS '
        'with >=3 leaves with work, >=1 link and >=1 shared resource; distinct = distinct case.')
ASSUMPTIONS = ['clocks later than midnight of the project-start day but <= project start are a known corner (F20) generated only in its replay',
               'tasks outside the WBS are not part of "the input WBS and all of its tasks": their own state is not snapshotted (what calc() did to them showed in the repeated-call clause, F33)']

CUSTOM_VALUES = [1, 'x', 'long text', (1, 2), None, 2.5, True]


@st.composite
def c06_case(draw, max_tasks=8):
    fwd = draw(st.booleans())
    c = draw(sched.fwd_case(max_tasks=max_tasks, min_tasks=1, lookalike_ids=True) if fwd
             else sched.bwd_case(max_tasks=max_tasks, min_tasks=1, lookalike_ids=True))
    for t in c['spec']['tasks']:
        if draw(st.integers(0, 2)) == 0:
            t['custom'] = {k: draw(st.sampled_from(CUSTOM_VALUES)) for k in draw(st.sets(st.sampled_from(['tag', 'prio', 'note', 'gantt_section']), max_size=2))}
    if draw(st.booleans()):
        c['wbs_kwargs'] = {'label': draw(st.sampled_from(['p1', 'demo'])), 'rev': draw(st.integers(0, 3))}
    if fwd and draw(st.booleans()):
        # clock pair N1 < N2 <= midnight of the project-start day.  Domain: user-fixed dates must mean the same
        # under both clocks - completed tasks end before N1, started tasks start on/after the project-start day
        # (a fixed start earlier than the clock makes the remaining work begin "today" by definition).
        P = dt(c['P'])
        hi = day(P)
        n1 = hi - timedelta(days=draw(st.integers(0, 300)), hours=draw(st.integers(0, 23)), minutes=draw(st.integers(0, 59)))
        n2 = n1 + (hi - n1) * draw(st.sampled_from([0, 0.5, 1]))
        for t in c['spec']['tasks']:
            if t['end'] is not None:
                e = n1 - timedelta(days=draw(st.integers(0, 30)), hours=draw(st.integers(0, 5)))
                t['end'] = iso(e)
                t['start'] = iso(e - timedelta(days=draw(st.integers(0, 10))))
            elif t['start'] is not None and dt(t['start']) < hi:
                t['start'] = iso(hi + (hi - dt(t['start'])))
        c['N'] = iso(n1)
        c['N2'] = iso(n2)
        c['start_default'] = False        # an explicit project start: the clock pair must not move it
    return c


def wbs_snapshot(w):
    """structure and content of a WBS through public getters"""
    tasks = list(w.tasks)
    out = dict(order=[t.id for t in tasks], roots=[t.id for t in w.roots], tasks={}, attrs={k: v for k, v in w.__dict__.items() if not k.startswith('_')})
    for t in tasks:
        d = dict(t.to_dict())
        out['tasks'][t.id] = dict(parent=t.parent.id if t.parent else None, children=[c.id for c in t.children],
                                  preds=[p.id for p in t.predecessors], succs=sorted((s.id for s in t.successors), key=repr),
                                  dict={k: (plain(v) if hasattr(v, 'isoformat') else v) for k, v in d.items()},
                                  estimate=t.estimate, spent=t.spent, owner=t.wbs is w)
    return out


def result_sig(o):
    return ([(i, o.T[i]['start'], o.T[i]['end'], o.T[i]['estimate'], o.T[i]['spent']) for i in o.m.order], list(o.rows))


SCHEDULED = ('start', 'end', 'estimate', 'spent')


def check(case, exclude=True):
    res = Result()
    env.set_clock(dt(case['N']))
    built = specs.build(case['spec'], case.get('wbs_kwargs'))
    w = built[0]
    ids_before = {t.id: t for t in w.tasks}
    before = wbs_snapshot(w)
    o = sched.run(case, wbs=built)
    res.labels += sched.spec_labels(o)
    if o.error is not None:
        res.label('calc-raised:' + type(o.error).__name__)
        after = wbs_snapshot(w)
        if after != before:
            res.v('C06:input-WBS-changed-by-failing-calc', dict(error=repr(o.error)))
        return res
    after = wbs_snapshot(w)
    if after != before:
        diff = [i for i in before['tasks'] if before['tasks'][i] != after['tasks'].get(i)]
        res.v('C06:input-WBS-changed-by-calc', dict(tasks=diff, attrs=before['attrs'] != after['attrs']))
    for i, t in ids_before.items():
        if t.wbs is not w:
            res.v('C06:input-task-no-longer-owned-by-input-WBS', dict(task=i))
    # ---- (2) shape of the result
    sw = o.sw
    if sw is w:
        res.v('C06:result-is-the-input-WBS', None)
    rs = wbs_snapshot(sw)
    if rs['order'] != before['order'] or rs['roots'] != before['roots']:
        res.v('C06:result-has-different-ids-or-order', dict(got=rs['order'], want=before['order']))
    else:
        for i in before['order']:
            a, b = before['tasks'][i], rs['tasks'][i]
            if (a['parent'], a['children']) != (b['parent'], b['children']):
                res.v('C06:result-hierarchy-differs', dict(task=i)); break
            if (sorted(a['preds'], key=repr), a['succs']) != (sorted(b['preds'], key=repr), b['succs']):
                res.v('C06:result-links-differ', dict(task=i)); break
            ca = {k: v for k, v in a['dict'].items() if k not in SCHEDULED}
            cb = {k: v for k, v in b['dict'].items() if k not in SCHEDULED}
            if ca != cb:
                res.v('C06:result-attributes-differ', dict(task=i, input=ca, result=cb)); break
            if not b['owner']:
                res.v('C06:result-task-not-owned-by-result-WBS', dict(task=i)); break
            if b['dict'].get('start') is None or b['dict'].get('end') is None:
                res.v('C06:result-task-without-start-or-end', dict(task=i)); break
        for t in sw.tasks:
            if ids_before.get(t.id) is t:
                res.v('C06:result-shares-task-objects-with-input', dict(task=t.id)); break
    if rs['attrs'] != before['attrs']:
        res.v('C06:WBS-attributes-not-carried-over', dict(input=before['attrs'], result=rs['attrs']))
    if not sched.complete(o):
        return res
    # ---- (3) determinism
    base = result_sig(o)
    try:
        # another scheduler object with other calendars for the same resource names comes to life in between:
        # it must not influence the first one
        from pjplan import Resource, WeeklyCalendar
        sched.make_scheduler(case, [Resource(n, WeeklyCalendar(days=[2, 6], units_per_day=5)) for n in specs.RES_NAMES])
        sched.make_scheduler(case, None)
        r2 = o.sched.calc(w)
        o2 = sched.Out(); o2.case = case; o2.m = o.m; o2.result = r2
        sched.extract(o2)
        if result_sig(o2) != base:
            res.v('C06:second-calc-on-same-scheduler-differs', _first_diff(base, result_sig(o2)))
    except Exception as e:
        res.v('C06:second-calc-on-same-scheduler-raises-%s' % type(e).__name__, dict(error=repr(e)[:200]))
    o3 = sched.run(case)
    if o3.error is not None or result_sig(o3) != base:
        res.v('C06:fresh-scheduler-with-equal-inputs-differs', _first_diff(base, result_sig(o3)) if o3.error is None else dict(error=repr(o3.error)))
    if case.get('reuse') or case.get('wrap'):
        # the result is a function of the VALUES of WBS, resources, start and clock: used objects, user-defined resource
        # classes and earlier plans on the same objects make no difference
        o5 = sched.run(dict(case, reuse=False, wrap=0))
        if o5.error is not None or result_sig(o5) != base:
            res.v('C06:result-depends-on-earlier-use-of-the-same-objects',
                  _first_diff(base, result_sig(o5)) if o5.error is None else dict(error=repr(o5.error)))
    # ---- (4) clock independence (forward)
    if case['dir'] == 'fwd' and case.get('N2'):
        c2 = dict(case, N=case['N2'])
        o4 = sched.run(c2)
        if o4.error is not None or result_sig(o4) != base:
            res.v('C06:forward-result-depends-on-clock-before-project-start',
                  dict(_first_diff(base, result_sig(o4)) if o4.error is None else dict(error=repr(o4.error)), N1=case['N'], N2=case['N2']))
        res.label('clock-pair')
    m = o.m
    leaves_with_work = [i for i in m.order if o.rows_by_task.get(i)]
    shared = len({(rn, d) for rn, d, tid, u in o.rows}) < len(o.rows)
    res.nontrivial = len(leaves_with_work) >= 3 and bool(case['spec']['links']) and shared
    res.sample = sched.summary_sample(o)
    return res


def _first_diff(a, b):
    for x, y in zip(a[0], b[0]):
        if x != y:
            return dict(first=x, second=y)
    if len(a[1]) != len(b[1]):
        return dict(rows_first=len(a[1]), rows_second=len(b[1]))
    for x, y in zip(a[1], b[1]):
        if x != y:
            return dict(row_first=x, row_second=y)
    return dict()


def streams(tier):
    n = 8 if tier == 'quick' else 12
    return [Stream('both-schedulers', check, strategy=lambda: c06_case(max_tasks=n),
                   examples={'quick': 5000, 'thorough': 60000}),
            Stream('large', check, strategy=lambda: c06_case(max_tasks=30), examples={'quick': 300, 'thorough': 4000})]
