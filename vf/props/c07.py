"""C07 — every scheduled task has start <= end and summary tasks roll up their children."""
from .. import sched
from ..runner import Stream
from ._sched import make_check

ID = 'C07'
RULE = ('Generated schedulable WBS specs of depth up to 4, links on leaves and summaries, children on different resources, '
        'project start / deadline at midnight and at other times, both schedulers.  Oracle: start <= end for every task; '
        'for every summary start == min(child.start), end == max(child.end), estimate == sum, spent == sum (1e-9) over '
        'the returned children; WBS.start / WBS.end == min / max over all tasks (None for an empty WBS).  Non-trivial = '
        'a summary at depth >=1 (WBS depth >=2) whose children use different resources or which inherits a prerequisite; '
        'distinct = distinct case.')
ASSUMPTIONS = ['fixed starts are midnights; fixed end with open start not generated (F12)']


def _oracle(o, v, facts):
    sched.c07(o, v)
    m = o.m
    for i in m.order:
        if not m.is_leaf(i) and m.depth(i) >= 1:
            rs = {m.t[x]['resource'] for x in m.leaves(i)}
            if len(rs) >= 2 or m.prereq_tasks(i):
                facts['deep-summary-with-mixed-bounds'] += 1


def _nt(o, facts):
    return facts['deep-summary-with-mixed-bounds'] >= 1


check = make_check('C07', _oracle, _nt)


def streams(tier):
    n = 8 if tier == 'quick' else 12
    return [Stream('both-schedulers', check, strategy=lambda: sched.any_case(max_tasks=n, min_tasks=0, taskdep='share', lookalike_ids=True),
                   examples={'quick': 10000, 'thorough': 100000}),
            Stream('large', check, strategy=lambda: sched.any_case(max_tasks=30, min_tasks=13), examples={'quick': 400, 'thorough': 6000})]
