"""C08 — forward schedules are tight: no unforced idle days; dates encode used capacity."""
import collections
import copy

from hypothesis import strategies as st

from .. import sched
from ..collect import Result
from ..runner import Stream
from ..specs import Model
from ._sched import make_check

ID = 'C08'
RULE = ('Stream "forward": generated schedulable specs, sparse and fractional calendars, many tasks per resource, forward '
        'scheduler.  Balance on: for every unfixed leaf every day from its release day (latest of project start, clock, '
        'min_start, prerequisite ends) up to but excluding its last work day (start day when no work) is fully booked for '
        'its resource; clock <= project start: start == first work day + 24h * share booked before the task and end == '
        'last work day + 24h * share booked up to and including the task (rows replayed in order; the clock is accepted as '
        'end when it is later); first rows of leaves that take part in no dependency appear in WBS order.  Stream '
        '"removal" (balance off, metamorphic): deleting whole root-level subtrees disjoint from the prerequisite closure of '
        'a task t (plus ancestors) leaves t\'s start and end unchanged.  Non-trivial = a leaf starts on a day partially '
        'booked by another task, or its release day has zero capacity / a removal case that really deletes >=1 task and '
        'keeps a task with work; distinct = distinct case.  Stream "crowded": all tasks on one resource, balance on, min_start values drawn from three days so that late-released tasks collide.')
ASSUMPTIONS = ['the day-fraction formulas are only asserted with balancing on (with balancing off "booked before the task" is ambiguous)',
               'calendar bounds day-aligned; fixed starts are midnights']


def _oracle(o, v, facts):
    sched.c08(o, v, facts)


def _nt(o, facts):
    return facts['starts-on-partially-booked-day'] >= 1 or facts['release-on-zero-capacity-day'] >= 1


check = make_check('C08', _oracle, _nt)


@st.composite
def removal_case(draw, max_tasks=8):
    c = draw(sched.fwd_case(max_tasks=max_tasks, min_tasks=2))
    c['balance'] = False
    c['pick'] = draw(st.integers(0, 50))
    c['drop'] = draw(st.lists(st.booleans(), min_size=max_tasks + 1, max_size=max_tasks + 1))
    return c


def check_removal(case, exclude=True):
    res = Result()
    m = Model(case['spec'])
    o = sched.run(case)
    res.labels += ['removal'] + sched.spec_labels(o)
    if o.error is not None or not sched.complete(o):
        res.label('calc-raised-or-incomplete')
        return res
    t = m.order[case['pick'] % len(m.order)]
    # closure of t under "prerequisite leaves of" plus all ancestors of its members
    K = set()
    todo = [t]
    while todo:
        x = todo.pop()
        if x in K:
            continue
        K.add(x)
        for a in m.ancestors(x):
            todo.append(a)
        for q in m.prereq_tasks(x):
            todo.append(q)
            todo += m.leaves(q)
        for d in m.subtree(x):
            todo.append(d)
    droppable = [r for r in m.roots if not (set(m.subtree(r)) & K)]
    drop = [r for k, r in enumerate(droppable) if case['drop'][k % len(case['drop'])]]
    if not drop:
        res.label('nothing-to-drop')
        return res
    gone = set()
    for r in drop:
        gone |= set(m.subtree(r))
    spec2 = copy.deepcopy(case['spec'])
    spec2['tasks'] = [x for x in spec2['tasks'] if x['id'] not in gone]
    spec2['links'] = [l for l in spec2['links'] if l[0] not in gone and l[1] not in gone]
    if spec2.get('ext'):
        for e in spec2['ext']:
            e['succ'] = [x for x in e['succ'] if x not in gone]
            e['pred'] = [x for x in e.get('pred', []) if x not in gone]
        spec2['ext'] = [e for e in spec2['ext'] if e['succ']]
    case2 = dict(case, spec=spec2)
    o2 = sched.run(case2)
    if o2.error is not None or not sched.complete(o2):
        res.v('C08:removal-of-unrelated-tasks-makes-calc-fail', dict(task=t, dropped=sorted(gone), error=repr(o2.error)))
        return res
    for x in sorted(K):
        if x in o2.T and (o.T[x]['start'] != o2.T[x]['start'] or o.T[x]['end'] != o2.T[x]['end']):
            res.v('C08:dates-change-when-unrelated-tasks-are-removed(balance-off)',
                  dict(task=x, dropped=sorted(gone), before=[o.T[x]['start'], o.T[x]['end']], after=[o2.T[x]['start'], o2.T[x]['end']]))
            break
    res.nontrivial = bool(o.rows_by_task.get(t)) or any(o.rows_by_task.get(x) for x in K)
    res.sample = dict(sched.summary_sample(o), picked=t, dropped=sorted(gone))
    return res


def streams(tier):
    n = 8 if tier == 'quick' else 12
    return [Stream('forward', check, strategy=lambda: sched.fwd_case(max_tasks=n, min_tasks=1),
                   examples={'quick': 3200, 'thorough': 64000}),
            Stream('crowded', check, strategy=lambda: sched.fwd_case(max_tasks=n, min_tasks=3, palette_max=1, balance=True,
                                                                     min_start_pool=[2, 3, 9], min_start_rate=2),
                   examples={'quick': 3200, 'thorough': 40000}),
            Stream('large', check, strategy=lambda: sched.fwd_case(max_tasks=30, min_tasks=13), examples={'quick': 400, 'thorough': 6000}),
            Stream('removal', check_removal, strategy=lambda: removal_case(max_tasks=n),
                   examples={'quick': 1200, 'thorough': 24000})]
