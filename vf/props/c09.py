"""C09 — backward schedules meet deadline and dependencies, as late as capacity allows."""
from .. import sched
from ..runner import Stream
from ._sched import make_check

ID = 'C09'
RULE = ('Generated acyclic WBS specs without fixed dates / min_start, links on leaves and summaries, calendars with '
        'availability before the deadline, deadlines at 00:00 / 10:00 / 23:00 / xx:30, both balance settings, scheduled '
        'backward.  Oracle: every end <= deadline; for every link U->V end(U) <= start(V) and the same for every pair of '
        'leaves under U and V; balance on: every day strictly after the end day and before the due day (earliest start of '
        'the successors of the leaf and of its ancestors, else the deadline) is full for the resource, so is every day '
        'strictly inside the work span; start == midnight after first work day - 24h * share booked incl. the task; '
        'computed end == midnight after its day - 24h * share booked before the task was placed.  Non-trivial = >=2 tasks '
        'compete for the last available day before a shared due date, or a leaf inherits its due date from an ancestor; '
        'distinct = distinct case.')
ASSUMPTIONS = ['for zero-work tasks the booking prefix at placement time is not observable: any prefix sum of that day is accepted']


def _oracle(o, v, facts):
    sched.c09(o, v, facts)
    per_day = {}
    for rn, d, tid, u in o.rows:
        per_day.setdefault((rn, d), set()).add(tid)
    if any(len(s) >= 2 for s in per_day.values()):
        facts['shared-day'] += 1


def _nt(o, facts):
    return facts['due-date-inherited'] >= 1 or facts['shared-day'] >= 1


check = make_check('C09', _oracle, _nt)


def streams(tier):
    n = 8 if tier == 'quick' else 12
    return [Stream('backward', check, strategy=lambda: sched.bwd_case(max_tasks=n, min_tasks=1, lookalike_ids=True),
                   examples={'quick': 6000, 'thorough': 100000}),
            Stream('large', check, strategy=lambda: sched.bwd_case(max_tasks=30, min_tasks=13), examples={'quick': 400, 'thorough': 6000})]
