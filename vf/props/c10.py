"""C10 — clone and subtree produce faithful, independent copies."""
from hypothesis import strategies as st

from .. import histgen, interp
from ..collect import Result
from ..runner import Stream

ID = 'C10'
RULE = ('A reachable multi-WBS state is built by a generated legal-biased mutator history (3 WBSs, 5-10 tasks whose ids may '
        'collide across WBSs / detached trees, links between WBSs and to detached tasks arise naturally), public attributes '
        'are put on the WBS and immutable custom attributes on tasks; then clone() or subtree(roots) with roots an antichain '
        'of members (one task, several siblings, nested non-root tasks, a query result); then 0-6 further mutations of the '
        'copy or of the source.  Oracle: (1) source WBS and all its members unchanged, outside tasks may only gain mirror '
        'links to copied tasks; (2) copy = new objects, equal id / to_dict / estimate / spent, same hierarchy and sibling '
        'order restricted to the selection, same set of dependency links inside the selection, no links to non-selected '
        'members, links to tasks outside the source WBS attached to the SAME outside objects, every copied task owned by the '
        'new WBS, WBS attributes carried over; (3) after the follow-up mutations of one side the other side is unchanged.  '
        'Non-trivial = selection of >= 3 tasks with >= 1 internal link and >= 1 link leaving the selection; distinct = '
        'distinct case.')
ASSUMPTIONS = ['overlapping selections (a task together with its descendant) are not generated: the statement gives the result no shape',
               'custom values are immutable (ints, strings, tuples)']


@st.composite
def clone_case(draw):
    h = draw(histgen.history('legal', max_ops=14))
    extra = []
    ti = st.integers(0, 11)
    for _ in range(draw(st.integers(4, 14))):
        extra.append(draw(st.one_of(
            st.tuples(st.just('pred_append'), ti, ti, st.just('L')),
            st.tuples(st.just('succ_append'), ti, ti, st.just('L')),
            st.tuples(st.just('append'), st.integers(-3, -1), ti, st.just('L')),
            st.tuples(st.just('append'), ti, ti, st.just('L')),
            st.tuples(st.just('append'), ti, ti, st.just('L')))))
    # most tasks go into one WBS (as roots or below earlier tasks) and get linked, so that selections have inner links
    u = len(h['ids'])
    pre = []
    for k in range(u - 2):
        owner = draw(st.one_of(st.just(-1), st.integers(0, max(0, k - 1)))) if k else -1
        pre.append(['append', owner, k, 'L'])
    for _ in range(draw(st.integers(1, 5))):
        pre.append(['pred_append', draw(st.integers(0, u - 1)), draw(st.integers(0, u - 1)), 'L'])
    if draw(st.booleans()):
        h['ops'] = pre + h['ops']
    else:
        h['ops'] = pre
    h['ops'] += [list(o) for o in extra]
    return dict(hist=h, which=draw(st.integers(0, 2)), mode=draw(st.sampled_from(['clone', 'subtree', 'subtree', 'subtree-query', 'subtree', 'clone-emptied', 'subtree-empty'])),
                form=draw(st.sampled_from(['list', 'list', 'tuple', 'generator', 'iterator', 'roots-list'])),
                sel=draw(st.lists(st.integers(0, 30), min_size=1, max_size=4)),
                custom=draw(st.lists(st.sampled_from([None, 'x', 3, (1, 2)]), min_size=4, max_size=4)),
                side=draw(st.sampled_from(['copy', 'source'])),
                # template workflow: the source has a twin (an earlier clone with equal content) and links into it
                twin=draw(st.one_of(st.just([]), st.just([]), st.lists(st.tuples(st.integers(0, 30), st.integers(0, 30), st.booleans()), min_size=1, max_size=3))),
                follow=draw(st.lists(st.tuples(st.sampled_from(['name', 'custom', 'remove', 'reparent', 'link', 'unlink', 'estimate', 'sort', 'attr']),
                                               st.integers(0, 30), st.integers(0, 30)), max_size=6)))


def _picker(t):
    return t.id


def side_snapshot(w):
    """structure + content of a WBS and its members (objects by identity)"""
    out = dict(attrs={k: v for k, v in w.__dict__.items() if not k.startswith('_')}, roots=[id(t) for t in w.roots], tasks={})
    for t in w.tasks:
        out['tasks'][id(t)] = (id(t.parent) if t.parent else None, [id(c) for c in t.children], [id(p) for p in t.predecessors],
                               sorted(id(s) for s in t.successors), dict(t.to_dict()), t.estimate, t.spent, t.wbs is w)
    return out


def check(case, exclude=True):
    res = Result()
    rep = interp.run_history(case['hist'])
    if any(p in ('C01', 'C05', 'C11') for p, _, _ in rep.viol):
        res.label('history-violates-another-property')
        return res
    world = rep.world
    g = rep.final
    sizes = [len(g.members(i)) for i in range(len(world.ws))]
    wi = max(range(len(world.ws)), key=lambda i: (sizes[i], -((i - case['which']) % 3)))
    if sizes[wi] == 0 and case['mode'] not in ('clone', 'clone-emptied', 'subtree-empty'):
        res.label('empty-wbs')
        return res
    src = world.ws[wi]
    src.label = 'plan-A'
    src.revision = 7
    src.key_function = len            # attribute values of any kind are carried over: callables, tuples, None
    src.picker = _picker
    src.nothing = None
    src.shape = (1, 'a')
    members = [world.ts[k] for k in g.members(wi)]
    for k, t in enumerate(members):
        v = case['custom'][k % 4]
        if v is not None:
            t.tag = tuple(v) if isinstance(v, list) else v
        t.estimate = [None, 0, 0.5, 3, 0][k % 5]
        t.spent = [None, 1, 0][k % 3]
        t.milestone = (k % 4 == 0)
    member_ids = {id(t) for t in members}
    twin = None
    if case.get('twin') and members:
        # "phase 2 is a copy of phase 1 and waits for it": links between the source and a WBS of equal content are links to
        # OUTSIDE tasks like any other (a WBS is told from another by identity, not by content)
        twin = src.clone()
        tw = list(twin.tasks)
        linked = 0
        for i, j, as_pred in case['twin']:
            a, b = members[i % len(members)], tw[j % len(tw)]
            try:
                (a.predecessors if as_pred else a.successors).append(b)
                linked += 1
            except RuntimeError:
                pass
        if linked:
            res.label('links-into-a-twin-WBS')
    mode = case['mode']
    if mode == 'clone-emptied':
        # a WBS that carries attributes but no tasks (any more)
        src.remove_all(lambda t: True)
        members, member_ids = [], set()
        mode = 'clone'
    if mode == 'subtree-empty':
        selection = []
    elif mode == 'clone':
        selection = list(src.roots)
    else:
        # antichain: drop every pick that is an ancestor / descendant of an earlier pick
        selection = []
        for s in case['sel']:
            if not members:
                break
            t = members[s % len(members)]
            if any(t is x or t in x.all_children or x in t.all_children for x in selection):
                continue
            selection.append(t)
    if mode == 'subtree-query':
        wanted = [t.id for t in selection]
        selection = [t for t in src.tasks if t.id in wanted]     # a query result is in WBS order
    selected = []
    for r in selection:
        selected.append(r)
        selected += list(r.all_children)
    sel_ids = {id(t) for t in selected}
    all_before = {id(t): (list(map(id, t.predecessors)), sorted(map(id, t.successors)), id(t.parent) if t.parent else None,
                          list(map(id, t.children)), dict(t.to_dict())) for t in world.ts}
    before = side_snapshot(src)
    try:
        if mode == 'clone':
            cp = src.clone()
        elif mode == 'subtree-query':
            cp = src.subtree(src.tasks(id_in_=wanted))
        elif mode == 'subtree-empty':
            cp = src.subtree(src.tasks(id_in_=[987654])) if case.get('form') == 'generator' else src.subtree([])
        else:
            form = case.get('form', 'list')
            arg = selection
            if len(selection) == 1 and form == 'list':
                arg = selection[0]
            elif form == 'tuple':
                arg = tuple(selection)
            elif form == 'generator':
                arg = (t for t in selection)
            elif form == 'iterator':
                arg = iter(list(selection))
            elif form == 'roots-list' and [id(t) for t in selection] == [id(t) for t in src.roots]:
                arg = src.roots
            cp = src.subtree(arg)
    except Exception as e:
        res.v('C10:%s-raises-%s' % (mode.split('-')[0], type(e).__name__), dict(error=repr(e)[:300], trace=rep.trace[-8:]))
        return res
    tag = 'clone' if mode == 'clone' else 'subtree'
    res.label('form:' + case.get('form', 'list'))
    # ---- (1) source unchanged; outside tasks only gain mirror links to copies
    if side_snapshot(src) != before:
        res.v('C10:%s-changes-the-source-WBS' % tag, dict(trace=rep.trace[-8:]))
    copies = list(cp.tasks)
    copy_ids = {id(t) for t in copies}
    for t in world.ts:
        if id(t) in member_ids:
            continue
        b = all_before[id(t)]
        now_p = [x for x in map(id, t.predecessors) if x not in copy_ids]
        now_s = sorted(x for x in map(id, t.successors) if x not in copy_ids)
        if (now_p, now_s, id(t.parent) if t.parent else None, list(map(id, t.children)), dict(t.to_dict())) != b:
            res.v('C10:%s-changes-a-task-outside-the-source-WBS' % tag, dict(task=t.id))
            break
    # ---- (2) the copy
    if cp is src:
        res.v('C10:%s-returns-the-source' % tag, None)
        return res
    exp_order = [t for t in selected]
    if [t.id for t in copies] != [t.id for t in exp_order] or [t.id for t in cp.roots] != [t.id for t in selection]:
        res.v('C10:%s-has-different-tasks-or-order' % tag, dict(got=[t.id for t in copies], expected=[t.id for t in exp_order]))
        return res
    omap = {id(o): c for o, c in zip(exp_order, copies)}
    inner = outer_member = outer_outside = 0
    for o, c in zip(exp_order, copies):
        if c is o or id(c) in member_ids:
            res.v('C10:%s-shares-task-objects-with-the-source' % tag, dict(task=o.id)); break
        if c.wbs is not cp:
            res.v('C10:copied-task-does-not-report-the-new-WBS(%s)' % tag, dict(task=o.id)); break
        if dict(c.to_dict()) != dict(o.to_dict()) or c.estimate != o.estimate or c.spent != o.spent:
            res.v('C10:%s-field-values-differ' % tag, dict(task=o.id, source=o.to_dict(), copy=c.to_dict())); break
        ep = omap.get(id(o.parent)) if (o.parent is not None and id(o.parent) in sel_ids) else None
        if c.parent is not ep:
            res.v('C10:%s-hierarchy-differs' % tag, dict(task=o.id)); break
        if [id(x) for x in c.children] != [id(omap[id(x)]) for x in o.children]:
            res.v('C10:%s-sibling-order-differs' % tag, dict(task=o.id)); break
        for rel in ('predecessors', 'successors'):
            exp_links = []
            for x in getattr(o, rel):
                if id(x) in sel_ids:
                    exp_links.append(id(omap[id(x)])); inner += 1
                elif id(x) in member_ids:
                    outer_member += 1          # link to a non-selected member: left out
                else:
                    exp_links.append(id(x)); outer_outside += 1      # outside task: the same object
            got_links = [id(x) for x in getattr(c, rel)]
            if sorted(got_links) != sorted(exp_links):
                got_objs = list(getattr(c, rel))
                kind = 'link-to-outside-task-not-kept-on-the-same-object' if any(
                    id(x) not in sel_ids and id(x) not in member_ids for x in getattr(o, rel)) else \
                    'link-to-unselected-member-kept' if any(id(x) in member_ids and id(x) not in sel_ids for x in getattr(o, rel)) else 'inner-links-differ'
                res.v('C10:%s-%s' % (tag, kind), dict(task=o.id, relation=rel, source=[x.id for x in getattr(o, rel)], copy=[x.id for x in got_objs]))
                break
        else:
            continue
        break
    src_attrs = {k: v for k, v in src.__dict__.items() if not k.startswith('_')}
    cp_attrs = {k: v for k, v in cp.__dict__.items() if not k.startswith('_')}
    if src_attrs != cp_attrs:
        res.v('C10:%s-does-not-carry-WBS-attributes' % tag, dict(source=src_attrs, copy=cp_attrs))
    # ---- (3) independence
    if not res.viol:
        side_w, other_w = (cp, src) if case['side'] == 'copy' else (src, cp)
        other_before = side_snapshot(other_w)
        applied = 0
        for op, a, b in case['follow']:
            L = list(side_w.tasks)
            if not L:
                break
            x, y = L[a % len(L)], L[b % len(L)]
            try:
                if op == 'name':
                    x.name = 'renamed'
                elif op == 'custom':
                    x.tag = 'changed'; x.extra = 5
                elif op == 'remove':
                    side_w.remove(x)
                elif op == 'reparent':
                    x.parent = y
                elif op == 'link':
                    x.predecessors.append(y)
                elif op == 'unlink':
                    x.predecessors = []
                    x.successors = []
                elif op == 'estimate':
                    x.estimate = 99
                elif op == 'sort':
                    side_w.roots.sort('id', reverse=True)
                elif op == 'attr':
                    side_w.label = 'plan-B'
                applied += 1
            except RuntimeError:
                pass
        if side_snapshot(other_w) != other_before:
            res.v('C10:mutating-the-%s-shows-on-the-other-side(%s)' % (case['side'], tag), dict(follow=case['follow']))
        res.label('follow-ups:%d' % min(applied, 3))
    res.label(mode, 'selection:%s' % ('1' if len(selected) == 1 else '2' if len(selected) == 2 else '3+'),
              'inner-links' if inner else 'no-inner-links', 'links-to-unselected-members' if outer_member else 'x',
              'links-to-outside' if outer_outside else 'y')
    res.nontrivial = len(selected) >= 3 and inner >= 1 and (outer_member + outer_outside) >= 1
    res.sample = dict(mode=mode, selection=[t.id for t in selection], trace=[(t['op'], t['outcome']) for t in rep.trace][-14:])
    return res


def streams(tier):
    return [Stream('states', check, strategy=clone_case, examples={'quick': 2400, 'thorough': 30000})]
