"""C11 — Task.wbs always tells the truth about WBS membership."""
from ._hist import hist_streams

ID = 'C11'
RULE = ('Histories over 3 WBSs biased to attach, move between parents, roots=/children= assignments that leave members '
        'out, remove / remove_all / WBS.remove, then re-attachment of released tasks; after every step, for every task '
        't and WBS X: (t.wbs is X) == (t reachable from X.roots through the real children lists); a legal attachment '
        'of a previously released, currently detached task to a WBS must not be refused.  Non-trivial = history in '
        'which a released task is re-attached to a WBS or a subtree of >=2 tasks is adopted by a WBS; distinct = '
        'distinct (universe, op list).')
ASSUMPTIONS = ['reachability is computed by the checker from WBS.roots and Task.children']


def streams(tier):
    return hist_streams('C11', 'membership', 8000, 80000)
