"""C12 — critical_path returns exactly the zero-float leaves of the dependency network."""
import itertools
from fractions import Fraction as F

from hypothesis import strategies as st

from .. import specs
from ..collect import Result
from ..runner import Stream
from ..specs import Model
from .c06 import wbs_snapshot

ID = 'C12'
RULE = ('Generated acyclic WBS specs (<= 8 tasks quick / 10 thorough) with durations from a tiny pool (so parallel branches '
        'tie), zero-length tasks, spent >= estimate, decimal estimates whose float sums are inexact (0.1+0.2 vs 0.3, '
        '0.1+0.2+0.7 vs 1.0), links on summaries as predecessor and as successor; plus ALL DAGs on <= 4 flat tasks x '
        'durations {0,1,2} in both WBS orders.  Oracle: reference CPM in exact rationals over the leaf expansion (EF, '
        'longest tail, critical <=> EF + tail == project length): set of returned ids == critical set, every element a '
        'leaf task object of this WBS listed once, non-empty when a leaf exists, WBS snapshot unchanged.  Inputs have <= 2 '
        'decimals, so exact slack is 0 or >= 0.01 while float error is <= 1e-12: any tolerance-based implementation agrees '
        'with the reference.  Side stream with predecessors outside the WBS: result must be a subset of this WBS\'s leaves. '
        'A third of the generated cases then edit the plan (nest a task under its previous sibling / change an estimate) and ask the same WBS object again; the second answer is judged against the reference on the edited plan.  Non-trivial = >= 2 distinct maximal chains, or a link touching a summary, or a non-integer duration; distinct = '
        'distinct case.')
ASSUMPTIONS = ['whether the duration of a predecessor outside the WBS counts is unspecified: only membership of the result is judged there']

DUR = [0, 1, 2, 3, 0.1, 0.2, 0.3, 0.7, 1.5, 2.5]


def fr(x):
    return F(str(x)) if x is not None else F(0)


def reference(m):
    leaves = [i for i in m.order if m.is_leaf(i)]
    dur = {i: max(fr(m.t[i]['estimate']) - fr(m.t[i]['spent']), F(0)) for i in leaves}
    pre = {i: set(m.prereq_leaves(i)) for i in leaves}
    suc = {i: set() for i in leaves}
    for i in leaves:
        for p in pre[i]:
            suc[p].add(i)
    ef, tail = {}, {}

    def EF(i):
        if i not in ef:
            ef[i] = dur[i] + max([EF(p) for p in pre[i]] + [F(0)])
        return ef[i]

    def TL(i):
        if i not in tail:
            tail[i] = max([dur[s] + TL(s) for s in suc[i]] + [F(0)])
        return tail[i]
    length = max([EF(i) for i in leaves] + [F(0)])
    crit = {i for i in leaves if EF(i) + TL(i) == length}
    chains = sum(1 for i in leaves if not suc[i] and EF(i) == length)
    return crit, length, chains


@st.composite
def c12_case(draw, max_tasks=8, ext=False):
    spec = draw(specs.wbs_spec(max_tasks=max_tasks, min_tasks=1, min_start=False, est_pool=DUR))
    pool = draw(st.sampled_from([[0, 1, 2], [1, 2, 3], [0.1, 0.2, 0.3, 0.7], DUR]))
    for t in spec['tasks']:
        t['estimate'] = draw(st.one_of(st.none(), st.sampled_from(pool), st.sampled_from(pool)))
        t['spent'] = draw(st.one_of(st.none(), st.none(), st.sampled_from([0, 0.1, 1, 5])))
        t['milestone'] = False
        # dates on tasks (a scheduled or partly tracked plan) must not matter for the critical path
        k = draw(st.integers(0, 5))
        if k == 0:
            t['end'] = '2031-03-0%dT00:00:00' % draw(st.integers(1, 9))
        elif k == 1:
            t['start'] = '2031-02-01T00:00:00'
            t['end'] = '2031-03-05T00:00:00'
    if ext:
        m = Model(spec)
        spec['ext'] = [dict(id=draw(st.sampled_from([100, m.order[0]])), start='2026-01-01T00:00:00', end='2026-01-02T00:00:00',
                            succ=[draw(st.sampled_from(m.order))])]
    # an edit between two calls on the SAME WBS object (the answer must follow the plan, not an earlier answer):
    # ['nest', k, _] makes a task the child of its previous sibling - ids, values, links and the depth-first order all stay,
    # only the hierarchy (who is a leaf, who inherits which dependency) changes; ['estimate', k, v] changes one value
    edit = None
    if not ext and draw(st.integers(0, 2)) == 0:
        edit = [draw(st.sampled_from(['nest', 'nest', 'estimate'])), draw(st.integers(0, 30)), draw(st.sampled_from(pool))]
    return dict(spec=spec, edit=edit)


DYADIC = [1024, 2048, 4096, 0, 2 ** -20, 2 ** -14, 2048 - 2 ** -20, 4096 - 2 ** -20, 2048 + 2 ** -14, 512, 131072, 131072 - 2 ** -14]


@st.composite
def dyadic_case(draw, max_tasks=7):
    """long projects whose durations are binary fractions: every float sum is exact, so a positive slack of 2**-20
    is a real slack, however long the project is"""
    spec = draw(specs.wbs_spec(max_tasks=max_tasks, min_tasks=2, min_start=False))
    for t in spec['tasks']:
        t['estimate'] = draw(st.sampled_from(DYADIC))
        t['spent'] = draw(st.sampled_from([None, None, 0, 2 ** -20]))
        t['milestone'] = False
    return dict(spec=spec, exact=True)


def check(case, exclude=True):
    res = Result()
    spec = case['spec']
    m = Model(spec)
    global fr
    fr_saved = fr
    if case.get('exact'):
        fr = lambda x: F(x) if x is not None else F(0)       # binary value of the float (sums are exact in this stream)
    try:
        return _check(case, res, spec, m)
    finally:
        fr = fr_saved


def _check(case, res, spec, m):
    w, objs, ext = specs.build(spec)
    for e in spec.get('ext', []):
        ext[e['id']].estimate = 50
    before = wbs_snapshot(w)
    try:
        got = list(w.critical_path())
    except Exception as e:
        kind = 'summary-link' if any(not m.is_leaf(u) or not m.is_leaf(v) for u, v in spec['links']) else 'leaf-links'
        res.v('C12:critical_path-raises-%s(%s)' % (type(e).__name__, kind), dict(error=repr(e)[:200]))
        return res
    if wbs_snapshot(w) != before:
        res.v('C12:critical_path-modifies-the-WBS', None)
    again = list(w.critical_path())
    if [id(t) for t in again] != [id(t) for t in got]:
        res.v('C12:second-call-gives-a-different-result', dict(first=[t.id for t in got], second=[t.id for t in again]))
    members = {id(t): t for t in w.tasks}
    crit, length, chains = reference(m)
    bad = [getattr(t, 'id', None) for t in got if id(t) not in members]
    if bad:
        res.v('C12:result-contains-a-task-that-is-not-in-the-WBS', dict(ids=bad))
    elif any(len(t.children) > 0 for t in got):
        res.v('C12:result-contains-a-summary-task', dict(ids=[t.id for t in got if len(t.children)]))
    elif len({id(t) for t in got}) != len(got):
        res.v('C12:result-lists-a-task-twice', dict(ids=[t.id for t in got]))
    elif not spec.get('ext'):
        ids = {t.id for t in got}
        if ids != crit:
            if not ids and crit:
                sig = 'C12:empty-result-although-the-WBS-has-leaves'
            else:
                frac = any(fr(t['estimate']).denominator != 1 or fr(t['spent']).denominator != 1 for t in spec['tasks'])
                summ = any(not m.is_leaf(u) or not m.is_leaf(v) for u, v in spec['links'])
                sig = 'C12:result-differs-from-reference-critical-set(%s)' % ('summary-links' if summ else 'fractional' if frac else 'leaf-links-integers')
            res.v(sig, dict(got=sorted(ids), expected=sorted(crit), length=float(length)))
    edited = _edit_and_ask_again(case, spec, m, w, objs, res)
    if edited:
        res.label('asked-again-after:' + edited)
    summ = any(not m.is_leaf(u) or not m.is_leaf(v) for u, v in spec['links'])
    frac = any(fr(t['estimate']).denominator != 1 for t in spec['tasks'] if m.is_leaf(t['id']))
    res.label('chains:%d' % min(chains, 3), 'summary-link' if summ else 'no-summary-link', 'fractional' if frac else 'integers',
              'ext' if spec.get('ext') else 'closed', 'crit:%d' % min(len(crit), 5))
    res.nontrivial = chains >= 2 or summ or frac
    res.sample = dict(tasks=[[t['id'], t['parent'], t['estimate'], t['spent']] for t in spec['tasks']], links=spec['links'],
                      ext=spec.get('ext'), expected=sorted(crit), got=[t.id for t in got])
    return res


def _acyclic(m):
    leaves = [i for i in m.order if m.is_leaf(i)]
    pre = {i: set(m.prereq_leaves(i)) for i in leaves}
    done = set()
    while len(done) < len(leaves):
        ready = [i for i in leaves if i not in done and pre[i] <= done]
        if not ready:
            return False
        done.update(ready)
    return True


def _edit_and_ask_again(case, spec, m, w, objs, res):
    import copy
    ed = case.get('edit')
    if not ed or spec.get('ext') or res.viol:
        return None
    kind, k, val = ed
    spec2 = copy.deepcopy(spec)
    try:
        if kind == 'nest':
            cands = [(a, b) for g in [m.roots] + [m.children[i] for i in m.order] for a, b in zip(g, g[1:])]
            if not cands:
                return None
            a, b = cands[k % len(cands)]
            objs[b].parent = objs[a]
            for t in spec2['tasks']:
                if t['id'] == b:
                    t['parent'] = a
        else:
            i = m.order[k % len(m.order)]
            objs[i].estimate = val
            for t in spec2['tasks']:
                if t['id'] == i:
                    t['estimate'] = val
    except RuntimeError:
        return None             # the edit itself was refused (a link between the two siblings): nothing to ask
    m2 = Model(spec2)
    if [t.id for t in w.tasks] != m2.order or any((t.parent.id if t.parent is not None else None) != m2.parent[t.id] for t in w.tasks):
        return None             # the edit did not land the way this helper assumes: not judged here (C16 judges edits)
    if not _acyclic(m2):
        return None             # nesting closed a circle through the hierarchy (b now inherits a link from a task that waits for b)
    crit2, length2, _ = reference(m2)
    try:
        got2 = list(w.critical_path())
    except Exception as e:
        res.v('C12:critical_path-raises-%s(after-%s-edit)' % (type(e).__name__, kind), dict(error=repr(e)[:200], edit=ed))
        return kind
    members = {id(t) for t in w.tasks}
    ids2 = {t.id for t in got2}
    if any(id(t) not in members or len(t.children) for t in got2) or len(got2) != len(ids2) or ids2 != crit2:
        res.v('C12:result-after-an-edit-differs-from-reference(%s)' % kind,
              dict(edit=ed, got=sorted(ids2), expected=sorted(crit2), length=float(length2)))
    return kind


def exhaustive(tier):
    for n in (1, 2, 3, 4):
        pairs = [(a, b) for a in range(1, n + 1) for b in range(a + 1, n + 1)]
        for mask in range(1 << len(pairs)):
            links = [[a, b] for k, (a, b) in enumerate(pairs) if mask >> k & 1]
            for durs in itertools.product([0, 1, 2], repeat=n):
                for order in ([1, 2, 3, 4][:n], [4, 3, 2, 1][4 - n:]):
                    tasks = [dict(id=i, name='T%d' % i, parent=None, resource=None, estimate=durs[i - 1], spent=None,
                                  milestone=False, start=None, end=None, min_start=None) for i in order]
                    yield dict(spec=dict(tasks=tasks, links=links))


def streams(tier):
    n = 8 if tier == 'quick' else 10
    return [Stream('generated', check, strategy=lambda: c12_case(max_tasks=n), examples={'quick': 6000, 'thorough': 100000}),
            Stream('large', check, strategy=lambda: c12_case(max_tasks=40), examples={'quick': 600, 'thorough': 10000}),
            Stream('long-dyadic', check, strategy=lambda: dyadic_case(), examples={'quick': 1500, 'thorough': 20000}),
            Stream('outside-predecessors', check, strategy=lambda: c12_case(max_tasks=6, ext=True), examples={'quick': 800, 'thorough': 8000}),
            Stream('all-small-dags', check, exhaustive=exhaustive)]
