"""C13 — write_csv followed by read_csv reproduces the WBS."""
import csv
import io
import os
import shutil
import tempfile
import atexit
from datetime import datetime, timedelta

from hypothesis import strategies as st

from .. import specs
from ..collect import Result
from ..env import dt
from ..runner import Stream
from ..specs import Model, iso

ID = 'C13'
RULE = ('Stream "roundtrip": generated WBSs in the CSV domain (hierarchy depth <= ~5, integer ids incl. 0 and negatives, '
        'arbitrary Unicode text without surrogates/NUL in name / resource / custom values incl. the delimiter, quotes, CR, '
        'LF, CRLF; day-precision dates 1969-2068 in start / end / min_start; integer and decimal estimates; milestone flag; '
        'sparse custom attributes with None / int / str values).  Oracle: r = read_csv(write_csv(w)) has the same ids in '
        'the same order, parents, sibling order, predecessor lists, equal fields (None == \'\' for text, numeric equality, '
        'custom values as strings over the UNION of attribute names of both sides); fixpoint: write(r) == '
        'write(read(write(r))) byte for byte.  Stream "handwritten": the harness\' own serializer writes the documented '
        'layout with variations (BOM, quote-all vs minimal, LF vs CRLF row ends, child rows before parent rows, "1;2" '
        'predecessor cells) and read_csv must load the model.  Non-trivial = WBS with >=1 non-root task, >=1 predecessor '
        'and >=1 text field containing one of ; " CR LF; distinct = distinct case.')
ASSUMPTIONS = ['BOM is only combined with minimal quoting (a quoted first header cell after a BOM is not the documented layout)',
               'custom attribute names are identifiers that do not collide with Task members or the ten default columns']

_TMP = None


def tmpdir():
    global _TMP
    if _TMP is None:
        _TMP = tempfile.mkdtemp(prefix='vf-c13-')
        atexit.register(shutil.rmtree, _TMP, True)
    return _TMP


DATELIKE = ['01.02.25', '10.11.12', '31.12.99', '29.02.24', '1.2.3', '01.02.2025', '5', '0', '-1', '1e3', 'True', 'None', 'nan', ' 7 ', '007', '1;2']
SPECIAL = [';', '"', '\r', '\n', '\r\n', ',', "'", '\t', ' ', '﻿', ';;', '""', 'a;b', '"q"', 'x\ny', '\\',
           # characters that mean something at the start of a physical line in other tabular dialects
           '#', '\n#', '\n# c\n', '\r\n#x', '\n;', '\n"', '\nid;name', '\n\n', '\n=1+1', '\n//', '\n-', '=', '@', '+', '--']
text = st.one_of(
    st.text(alphabet=st.characters(blacklist_categories=('Cs',), blacklist_characters='\x00'), max_size=8),
    st.lists(st.one_of(st.sampled_from(SPECIAL), st.sampled_from(['a', 'B', 'é', '中', '1'])), max_size=5).map(''.join),
)
opt_text = st.one_of(st.none(), text, text)
CUSTOM_NAMES = ['color', 'tag', 'owner', 'x1', 'Ünï', 'note']
date_st = st.integers(0, 36500).map(lambda k: iso(datetime(1969, 1, 1) + timedelta(days=k)))
opt_date = st.one_of(st.none(), st.none(), date_st)
num = st.one_of(st.none(), st.integers(0, 200), st.sampled_from([0.1, 0.5, 2.5, 7.3, 12.25, 1e-3, 123456.75]))


@st.composite
def csv_case(draw, max_tasks=7):
    spec = draw(specs.wbs_spec(max_tasks=max_tasks, min_tasks=1, min_start=False, summary_links=True))
    n = len(spec['tasks'])
    idst = st.one_of(st.integers(-6, 40), st.integers(-6, 40), st.integers(-6, 40),
                     st.sampled_from([2 ** 53 + 1, 2 ** 53 + 3, 10 ** 18 + 7, -(10 ** 18) - 9, 2 ** 31, 2 ** 63, 9007199254740993]))
    new_ids = draw(st.lists(idst, min_size=n, max_size=n, unique=True))
    if draw(st.booleans()) and 0 not in new_ids:
        new_ids[0] = 0          # id 0 first in WBS order, so that it tends to be a parent
    mp = {t['id']: new_ids[k] for k, t in enumerate(spec['tasks'])}
    for t in spec['tasks']:
        t['id'] = mp[t['id']]
        t['parent'] = None if t['parent'] is None else mp[t['parent']]
        t['name'] = draw(opt_text)
        t['resource'] = draw(opt_text)
        t['estimate'] = draw(num)
        t['spent'] = draw(num)
        t['milestone'] = draw(st.booleans())
        t['start'] = draw(opt_date)
        t['end'] = draw(opt_date)
        t['min_start'] = draw(opt_date)
        names = draw(st.sets(st.sampled_from(CUSTOM_NAMES), max_size=3))
        t['custom'] = {k: draw(st.one_of(st.none(), st.integers(-5, 5), text, st.sampled_from(DATELIKE))) for k in sorted(names)}
        if draw(st.integers(0, 7)) == 0:
            t['name'] = draw(st.sampled_from(DATELIKE))
        if draw(st.integers(0, 7)) == 0:
            t['resource'] = draw(st.sampled_from(DATELIKE))
    spec['links'] = [[mp[u], mp[v]] for u, v in spec['links']]
    return dict(spec=spec)


STD = ('id', 'name', 'resource', 'start', 'end', 'milestone', 'min_start')


def norm_text(v):
    return '' if v is None else v


def task_view(t):
    d = t.to_dict()
    custom = {k: ('' if v is None else str(v)) for k, v in d.items() if k not in STD}
    return dict(id=t.id, parent=t.parent.id if t.parent else None, children=[c.id for c in t.children],
                preds=[p.id for p in t.predecessors], name=norm_text(t.name), resource=norm_text(t.resource),
                start=t.start, end=t.end, min_start=t.min_start, estimate=t.estimate, spent=t.spent,
                milestone=bool(t.milestone), custom=custom)


def compare(a_views, b_views, v, ctx):
    """a: expected, b: loaded"""
    if [x['id'] for x in a_views] != [x['id'] for x in b_views]:
        v('C13:%s:ids-or-order-differ' % ctx, dict(expected=[x['id'] for x in a_views], got=[x['id'] for x in b_views]))
        return
    for a, b in zip(a_views, b_views):
        for f in ('parent', 'children', 'preds', 'name', 'resource', 'start', 'end', 'min_start', 'milestone'):
            if a[f] != b[f]:
                tag = f
                if f == 'parent' and a[f] == 0:
                    tag = 'parent(id-0)'
                v('C13:%s:%s-differs' % (ctx, tag), dict(task=a['id'], expected=a[f], got=b[f]))
                return
        for f in ('estimate', 'spent'):
            x, y = a[f], b[f]
            if (x is None) != (y is None) or (x is not None and float(x) != float(y)):
                v('C13:%s:%s-differs' % (ctx, f), dict(task=a['id'], expected=x, got=y))
                return
        keys = sorted(set(a['custom']) | set(b['custom']))
        for k in keys:
            if a['custom'].get(k, '') != b['custom'].get(k, ''):
                v('C13:%s:custom-attribute-differs(%s)' % (ctx, k if k in ('parent_id', 'predecessor_ids') else 'custom'),
                  dict(task=a['id'], attribute=k, expected=a['custom'].get(k), got=b['custom'].get(k)))
                return


def labels_for(spec, res):
    m = Model(spec)
    texts = [x for t in spec['tasks'] for x in [t['name'], t['resource']] + [c for c in (t.get('custom') or {}).values() if isinstance(c, str)] if x]
    hard = any(ch in s for s in texts for ch in ';"\r\n')
    if hard:
        res.label('text-with-delimiter-quote-or-linebreak')
    if any(t['parent'] == 0 for t in spec['tasks']):
        res.label('parent-with-id-0')
    if any(t['id'] < 0 for t in spec['tasks']):
        res.label('negative-id')
    if any(t.get('min_start') for t in spec['tasks']):
        res.label('min_start-set')
    cs = [set((t.get('custom') or {})) for t in spec['tasks']]
    if cs and any(c != cs[0] for c in cs):
        res.label('sparse-custom-attributes')
    res.nontrivial = hard and any(t['parent'] is not None for t in spec['tasks']) and bool(spec['links'])


def check_roundtrip(case, exclude=True):
    from pjplan import read_csv, write_csv
    res = Result()
    spec = case['spec']
    w, objs, _ = specs.build(spec)
    labels_for(spec, res)
    d = tmpdir()
    p1, p2, p3 = (os.path.join(d, '%d-%s.csv' % (os.getpid(), k)) for k in 'abc')
    try:
        write_csv(w, p1)
        r = read_csv(p1)
    except Exception as e:
        res.v('C13:roundtrip:%s-while-writing-or-reading' % type(e).__name__, dict(error=repr(e)[:300]))
        return res
    compare([task_view(t) for t in w.tasks], [task_view(t) for t in r.tasks], res.v, 'roundtrip')
    try:
        write_csv(r, p2)
        r2 = read_csv(p2)
        write_csv(r2, p3)
        b2, b3 = open(p2, 'rb').read(), open(p3, 'rb').read()
        if b2 != b3:
            res.v('C13:fixpoint:second-cycle-changes-the-file', dict(first=b2[:300].decode('utf-8', 'replace'), second=b3[:300].decode('utf-8', 'replace')))
    except Exception as e:
        res.v('C13:fixpoint:%s-in-second-cycle' % type(e).__name__, dict(error=repr(e)[:300]))
    res.sample = dict(tasks=[[t['id'], t['parent'], t['name'], t['resource'], t['start'], t['estimate'], t.get('min_start'), t.get('custom')]
                             for t in spec['tasks']], links=spec['links'])
    return res


# ------------------------------------------------------------------------------ hand-written files

HEADER = ['id', 'name', 'resource', 'start', 'end', 'estimate', 'spent', 'milestone', 'parent_id', 'predecessor_ids']


def _fmt_date(s):
    return '' if s is None else dt(s).strftime('%d.%m.%y')


def serialise(spec, bom, quote_all, crlf, children_first, customs, old_min_start=False):
    rows = list(spec['tasks'])
    if children_first:
        m = Model(spec)
        # a stable order in which every child row precedes its parent row
        rows = sorted(rows, key=lambda t: -m.depth(t['id']))
    preds = {t['id']: [] for t in spec['tasks']}
    for u, v in spec['links']:
        preds[v].append(u)
    # the harness' own writer (independent of csv.writer): a cell is quoted when it contains the delimiter, a
    # quote, CR or LF - or always with quote_all; quotes are doubled
    def cell(x):
        x = str(x)
        if quote_all or any(ch in x for ch in ';"\r\n'):
            return '"' + x.replace('"', '""') + '"'
        return x
    eol = '\r\n' if crlf else '\n'
    lines = [';'.join(cell(h) for h in HEADER + customs)]
    for t in rows:
        cells = [t['id'], norm_text(t['name']), norm_text(t['resource']), _fmt_date(t['start']), _fmt_date(t['end']),
                 '' if t['estimate'] is None else t['estimate'], '' if t['spent'] is None else t['spent'],
                 'True' if t['milestone'] else ('False' if t['id'] % 2 else ''),
                 '' if t['parent'] is None else t['parent'], ';'.join(str(p) for p in preds[t['id']])] + \
                [(_fmt_date(t.get('min_start')) if not (old_min_start and t.get('min_start')) else str(dt(t['min_start']))) if k == 'min_start'
                 else norm_text((t.get('custom') or {}).get(k)) for k in customs]
        lines.append(';'.join(cell(c) for c in cells))
    text_ = eol.join(lines) + eol
    data = text_.encode('utf-8')
    return (b'\xef\xbb\xbf' if bom else b'') + data, rows


@st.composite
def hand_case(draw, max_tasks=7):
    c = draw(csv_case(max_tasks=max_tasks))
    bom = draw(st.booleans())
    c['variant'] = dict(bom=bom, quote_all=(not bom) and draw(st.booleans()), crlf=draw(st.booleans()),
                        children_first=draw(st.booleans()), min_start_column=draw(st.booleans()),
                        # versions before min_start became a date column wrote it as an ordinary attribute: str(datetime)
                        old_min_start=draw(st.integers(0, 3)) == 0)
    for t in c['spec']['tasks']:
        t['custom'] = {k: (None if v is None else str(v)) for k, v in t['custom'].items()}
        if not c['variant']['min_start_column']:
            t['min_start'] = None
    return c


def check_hand(case, exclude=True):
    from pjplan import read_csv
    res = Result()
    spec = case['spec']
    var = case['variant']
    labels_for(spec, res)
    res.label(*['variant:%s' % k for k, x in var.items() if x])
    customs = sorted({k for t in spec['tasks'] for k in (t.get('custom') or {})})
    if var['min_start_column']:
        customs = ['min_start'] + customs
    data, rows = serialise(spec, var['bom'], var['quote_all'], var['crlf'], var['children_first'], customs, var.get('old_min_start', False))
    p = os.path.join(tmpdir(), '%d-h.csv' % os.getpid())
    with open(p, 'wb') as f:
        f.write(data)
    try:
        r = read_csv(p)
    except Exception as e:
        res.v('C13:handwritten:%s-while-reading(%s)' % (type(e).__name__, ','.join(k for k, x in var.items() if x)),
              dict(error=repr(e)[:300], file=data[:400].decode('utf-8', 'replace')))
        return res
    # expected model: hierarchy from parent ids, sibling / root order = row order
    m = Model(spec)
    row_ids = [t['id'] for t in rows]
    kids = {i: [x for x in row_ids if m.parent[x] == i] for i in row_ids}
    roots = [x for x in row_ids if m.parent[x] is None]

    def dfs(i):
        out = [i]
        for c in kids[i]:
            out += dfs(c)
        return out
    order = [x for r_ in roots for x in dfs(r_)]
    preds = {i: [] for i in row_ids}
    for u, v in spec['links']:
        preds[v].append(u)
    exp = []
    for i in order:
        t = m.t[i]
        exp.append(dict(id=i, parent=t['parent'], children=kids[i], preds=preds[i], name=norm_text(t['name']),
                        resource=norm_text(t['resource']), start=dt(t['start']), end=dt(t['end']), min_start=dt(t.get('min_start')),
                        estimate=t['estimate'], spent=t['spent'], milestone=bool(t['milestone']),
                        custom={k: norm_text(x) for k, x in (t.get('custom') or {}).items()}))
    compare(exp, [task_view(t) for t in r.tasks], res.v, 'handwritten')
    res.sample = dict(variant=var, file=data[:300].decode('utf-8', 'replace'))
    return res

FUZZ = [('roundtrip', 3000), ('handwritten', 2000)]       # thorough tier: coverage-guided sub-run (vf/fuzz.py), runs per process x 16 processes


def streams(tier):
    n = 7 if tier == 'quick' else 10
    return [Stream('roundtrip', check_roundtrip, strategy=lambda: csv_case(max_tasks=n), examples={'quick': 3000, 'thorough': 50000}),
            Stream('handwritten', check_hand, strategy=lambda: hand_case(max_tasks=n), examples={'quick': 2000, 'thorough': 30000})]
