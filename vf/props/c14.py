"""C14 — calc always terminates with a schedule or a RuntimeError diagnosis."""
import signal
from datetime import datetime, timedelta

from hypothesis import strategies as st

from .. import sched, specs
from ..collect import Result
from ..env import dt
from ..runner import Stream
from ..specs import BASE, Model, iso, day

ID = 'C14'
RULE = ('Generated well-formed WBS specs incl. unschedulable ones: hierarchical dependency cycles (a task waiting for a task '
        'that waits for one of its ancestors; 1/3 of the stream), resources whose calendar is empty / zero / ended before '
        'the project start (forward) / starting after the deadline (backward) / with validity bounds at a time of day / offering only a few dated days (less than a task needs), external predecessors with and without '
        'dates, leaves with a fixed end after the clock (forward), tasks named None, empty WBS, zero-work and milestone '
        'tasks on dead resources; both schedulers.  Oracle: outcome is a Schedule or a RuntimeError that is not a '
        'RecursionError; any other exception type is a violation; for the four unschedulable classes of the statement a '
        'returned schedule is a violation too.  Unbounded looping is attacked with resources wrapped in a counting '
        'IResource subclass that aborts after 10^6*(tasks+1) capacity queries (far above the library\'s own horizons); a '
        '120 s alarm only marks a case inconclusive.  Non-trivial = case unschedulable by the model (any class) or '
        'schedulable with a zero-capacity stretch >= 30 days; distinct = distinct case.')
ASSUMPTIONS = [               'a loop that makes no capacity query would only hit the wall-clock guard and be reported inconclusive']


class _Budget(BaseException):
    pass


class _Alarm(BaseException):
    pass


def _counting(resources, budget):
    """Count capacity queries WITHOUT changing what the scheduler sees: the resources stay genuine `Resource`
    objects (same str(), same class), only their calendar is wrapped in a counting IWorkCalendar."""
    from pjplan import IWorkCalendar, Resource
    state = {'n': 0}

    class CountingCalendar(IWorkCalendar):
        def __init__(self, inner):
            self.inner = inner

        def get_available_units(self, date):
            state['n'] += 1
            if state['n'] > budget:
                raise _Budget()
            return self.inner.get_available_units(date)

        def __repr__(self):
            return repr(self.inner)
    out = []
    for r in resources:
        if isinstance(r, Resource):
            r.calendar = CountingCalendar(r.calendar)
        out.append(r)
    return out, state


@st.composite
def c14_case(draw, max_tasks=7):
    fwd = draw(st.booleans())
    hier = draw(st.integers(0, 2)) == 0
    kw = dict(max_tasks=max_tasks, min_tasks=0, hier_cycles=hier)
    c = draw(sched.fwd_case(**kw) if fwd else sched.bwd_case(**kw))
    spec = c['spec']
    m = Model(spec)
    N = dt(c['N'])
    flavour = draw(st.sampled_from(['plain', 'plain', 'dead', 'ext', 'ext-undated', 'future-end', 'none-name', 'mix', 'tod-bounds', 'tod-bounds']))
    c['flavour'] = flavour
    c['unhashable'] = draw(st.integers(0, 4)) == 0
    if hier and draw(st.booleans()):
        # build a cycle that only closes through the hierarchy: c (below S) waits for X, X waits for S (or reversed roles)
        summaries = [i for i in m.order if not m.is_leaf(i)]
        if summaries:
            S = draw(st.sampled_from(summaries))
            inside = [x for x in m.subtree(S) if x != S]
            outside = [x for x in m.order if x not in m.subtree(S) and x not in m.ancestors(S)]
            if inside and outside:
                cc = draw(st.sampled_from(inside))
                X = draw(st.sampled_from(outside))
                extra = [[X, cc], [S, X]] if draw(st.booleans()) else [[cc, X], [X, S]]
                for l in extra:
                    if l not in spec['links']:
                        spec['links'].append(l)
                # keep the explicit dependency graph acyclic (C01): drop the extra links if they close a direct cycle
                adj = {}
                for u, v in spec['links']:
                    adj.setdefault(u, set()).add(v)

                def reach(a, b, seen=None):
                    seen = seen or set()
                    if a == b:
                        return True
                    seen.add(a)
                    return any(reach(y, b, seen) for y in adj.get(a, ()) if y not in seen)
                if any(reach(v, u) for u, v in spec['links']):
                    for l in extra:
                        if l in spec['links']:
                            spec['links'].remove(l)
                m = Model(spec)
    # the links may have changed after the detours over outside tasks (member -> outside -> member) were chosen:
    # drop a detour that now closes a circle of explicit links (the API refuses to build it)
    for e in spec.get('ext', []):
        if e.get('pred'):
            adj2 = {}
            for u, v in spec['links']:
                adj2.setdefault(u, set()).add(v)
            for e2 in spec['ext']:
                if e2 is not e and e2.get('pred'):
                    for a_ in e2['pred']:
                        for b_ in e2['succ']:
                            adj2.setdefault(a_, set()).add(b_)

            def reach2(a, b, seen=None):
                seen = seen or set()
                if a == b:
                    return True
                seen.add(a)
                return any(reach2(y, b, seen) for y in adj2.get(a, ()) if y not in seen)
            if any(reach2(b_, a_) for a_ in e['pred'] for b_ in e['succ']):
                e['pred'] = []
    used = sorted({str(t['resource']) for t in spec['tasks']})
    if flavour == 'tod-bounds' and used:
        anchor = (dt(c['P']) - BASE).days
        for name in used:
            if draw(st.integers(0, 3)) > 0:
                cs = draw(specs.calendar_spec(tod=True))
                if draw(st.integers(0, 3)) > 0:
                    # put the first valid day right next to the project end / start: that is where a search lands on it
                    k = 3 if cs[0] == 'bounded_tod' else 2
                    cs[k] = anchor - draw(st.sampled_from([1, 1, 2, 0])) if not fwd else anchor + draw(st.sampled_from([0, 1, 2]))
                c['res'][name] = cs
    if flavour in ('dead', 'mix') and used:
        victim = draw(st.sampled_from(used))
        c['res'][victim] = draw(specs.calendar_spec(dead=True))
    if flavour in ('ext', 'ext-undated', 'mix') and m.order:
        ext = []
        for k in range(draw(st.integers(1, 2))):
            dated = flavour == 'ext' or (flavour == 'mix' and draw(st.booleans()))
            e = dict(id=draw(st.sampled_from([100 + k, 100 + k, draw(st.sampled_from(m.order))])), succ=[draw(st.sampled_from(m.order))])
            if dated:
                s = BASE + timedelta(days=draw(st.integers(-30, 10)))
                e['start'] = iso(s)
                e['end'] = iso(s + timedelta(days=draw(st.integers(0, 5)), hours=draw(st.integers(0, 23))))
                if fwd and dt(e['end']) > N:
                    # a dated external predecessor ending after the clock is legitimate input
                    pass
            else:
                which = draw(st.sampled_from(['none', 'start-only', 'end-only']))
                if which == 'start-only':
                    e['start'] = iso(BASE)
                elif which == 'end-only':
                    e['end'] = iso(BASE)
            ext.append(e)
        spec['ext'] = ext
    if flavour in ('future-end', 'mix') and fwd:
        leaves = [t for t in spec['tasks'] if m.is_leaf(t['id']) and not t['milestone']]
        if leaves and (flavour == 'future-end' or draw(st.booleans())):
            t = draw(st.sampled_from(leaves))
            t['end'] = iso(N + timedelta(days=draw(st.integers(0, 20)), hours=draw(st.integers(1, 23))))
            if draw(st.booleans()):
                t['start'] = iso(day(N) - timedelta(days=draw(st.integers(0, 5))))
    if flavour in ('none-name', 'mix'):
        for t in spec['tasks']:
            if draw(st.booleans()):
                t['name'] = None
    return c


def _dead(cs, fwd):
    k = cs[0]
    if k == 'direct' and not cs[1]:
        return True
    if k == 'weekly' and cs[2] == 0:
        return True
    if k == 'fixed' and cs[1] == 0:
        return True
    if k == 'scaled' and cs[3] == 0:
        return True
    if k == 'bounded':
        if fwd and cs[4] is not None and cs[4] < -300:
            return True
        if not fwd and cs[3] > 300:
            return True
    return False


def expected_unschedulable(case):
    """classes of the statement for which RuntimeError is the required outcome"""
    spec = case['spec']
    m = Model(spec)
    fwd = case['dir'] == 'fwd'
    N = dt(case['N'])
    out = []
    if any(not (e.get('start') and e.get('end')) for e in spec.get('ext', [])):
        out.append('undated-external-predecessor')
    if fwd and any(t['end'] is not None and dt(t['end']) > N for t in spec['tasks'] if m.is_leaf(t['id'])):
        out.append('future-fixed-end')
    if not m.leaf_acyclic():
        out.append('hierarchical-cycle')
    for t in spec['tasks']:
        if not m.is_leaf(t['id']) or t['milestone'] or (fwd and t['end'] is not None):
            continue
        cs = case['res'].get(str(t['resource']))
        if cs is not None and _dead(cs, fwd) and sched.workf(t, case['dflt']) > 0:
            out.append('resource-never-available')
            break
        if cs is not None and cs[0] == 'direct' and cs[1] and sched.workf(t, case['dflt']) > sum(cs[1].values()) + 1e-9:
            out.append('resource-capacity-exhausted')        # all capacity the calendar will ever offer < work of one task
            break
    return out


def check(case, exclude=True):
    res = Result()
    from .. import env
    env.set_clock(dt(case['N']))
    exp = expected_unschedulable(case)
    m = Model(case['spec'])
    res.labels += [case['dir'], 'flavour:' + case.get('flavour', '?')] + ['expect:' + e for e in exp]
    wbs, objs, ext = specs.build(case['spec'])
    resources = specs.make_resources(case['res'])
    budget = 10 ** 6 * (len(m.order) + 1)
    wrapped, state = _counting(resources, budget)
    if case.get('unhashable') and wrapped:
        # a user-defined resource class that defines equality and therefore is not hashable (e.g. a plain @dataclass)
        from pjplan import IResource

        class Crew(IResource):
            __hash__ = None

            def __init__(self, inner):
                super().__init__(inner.name)
                self.inner = inner

            def __eq__(self, other):
                return isinstance(other, Crew) and other.name == self.name

            def get_available_units(self, date, task=None):
                return self.inner.get_available_units(date, task)
        wrapped = [Crew(r) if k % 2 == 0 else r for k, r in enumerate(wrapped)]
    s = sched.make_scheduler(case, wrapped)

    def on_alarm(signum, frame):
        raise _Alarm()
    old = signal.signal(signal.SIGALRM, on_alarm)
    signal.alarm(120)
    outcome = None
    try:
        try:
            r = s.calc(wbs)
            outcome = 'schedule'
        except _Budget:
            outcome = 'budget'
        except _Alarm:
            outcome = 'alarm'
        except RecursionError as e:
            outcome = 'RecursionError'
            err = e
        except RuntimeError as e:
            outcome = 'RuntimeError'
            err = e
        except Exception as e:
            outcome = type(e).__name__
            err = e
    finally:
        signal.alarm(0)
        signal.signal(signal.SIGALRM, old)
    res.label('outcome:' + outcome)
    res.label('queries:%s' % ('0' if state['n'] == 0 else '<1e3' if state['n'] < 1e3 else '<1e5' if state['n'] < 1e5 else '>=1e5'))
    if outcome == 'alarm':
        res.label('inconclusive-timeout')
    elif outcome == 'budget':
        res.v('C14:no-termination-within-query-budget', dict(queries=state['n'], expected=exp))
    elif outcome == 'schedule':
        if exp:
            res.v('C14:schedule-returned-for-unschedulable-input(%s)' % exp[0], dict(expected=exp))
    elif outcome != 'RuntimeError':
        import traceback
        tb = traceback.extract_tb(err.__traceback__)
        frame = [f for f in tb if '/pjplan/' in f.filename]
        where = '%s:%s' % (frame[-1].filename.split('/pjplan/')[-1], frame[-1].name) if frame else '?'
        res.v('C14:%s:%s%s' % (outcome, where, ('(%s)' % exp[0]) if exp else ''), dict(error=repr(err)[:300], expected=exp))
    stretch = False
    for k, cs in case['res'].items():
        if cs[0] == 'bounded' and (cs[3] >= 30 or (cs[4] is not None)):
            stretch = True
    res.nontrivial = bool(exp) or (outcome == 'schedule' and stretch)
    res.sample = dict(flavour=case.get('flavour'), expected=exp, outcome=outcome,
                      case=dict(dir=case['dir'], P=case['P'], N=case['N'], res=case['res'],
                                tasks=[[t['id'], t['parent'], t['resource'], t['estimate'], t['spent'], t['milestone'], t['start'], t['end'], t['name']]
                                       for t in case['spec']['tasks']], links=case['spec']['links'], ext=case['spec'].get('ext')))
    return res


def streams(tier):
    n = 7 if tier == 'quick' else 10
    return [Stream('both-schedulers', check, strategy=lambda: c14_case(max_tasks=n),
                   examples={'quick': 5000, 'thorough': 50000})]
