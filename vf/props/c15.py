"""C15 — a rejected mutation changes nothing."""
from ._hist import hist_streams

ID = 'C15'
LEVEL = 'fault_enumeration'
RULE = ('Histories of public mutator calls biased to rejected calls (multi-element arguments whose LAST element is '
        'the offender while the prefix is acceptable, bad indexes, missing/ambiguous move anchors, unknown reorder '
        'ids, sort on a missing attribute, list operators with a refusing receiver); for EVERY call that raises, the '
        'full snapshot of the universe (parents, children order, predecessor and successor lists, owner pointers, '
        'root lists of every WBS) taken before the call is compared with the one taken after.  The fault is the '
        'rejection; the enumeration is over where inside the call it occurs.  Non-trivial = history with a raising '
        'call on a graph with >=3 attached tasks; distinct = distinct (universe, op list).  Small-scope sub-run: every '
        '1-step history over the full small alphabet and every 2-step history over a tiny alphabet, 4 tasks / 2 WBSs, 10 seed '
        'shapes (thorough: also the mixed reduced x tiny 2-step histories).')
ASSUMPTIONS = ['a Task(...) constructor call that names existing tasks (parent=, children=, predecessors=, successors=) mutates them and is judged like any other call',
               'snapshots use the direct public getters; recursive getters are compared separately']

FUZZ = [('random-late', 4000)]       # thorough tier: coverage-guided sub-run (vf/fuzz.py), runs per process x 16 processes


def streams(tier):
    return hist_streams('C15', 'late', 8000, 80000)
