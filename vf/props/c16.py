"""C16 — accepted mutations have exactly their documented effect and touch nothing else."""
from ._hist import hist_streams

ID = 'C16'
RULE = ('Histories biased to calls the reference model calls legal (arguments shifted until legal); for every call '
        'that returns and is legal with no repeated sequence element, the real post-state must equal one of the '
        'documented post-states computed by the model from the pre-state: children / roots lists as sequences, '
        'dependency lists as multisets when the call edits them, every untouched list identical (frame).  '
        'Non-trivial = history with a returning legal call on a list of >=3 elements or moving a subtree of >=2 tasks; '
        'distinct = distinct (universe, op list).')
ASSUMPTIONS = ['vf/graph.py::effect encodes the statement of C16; unspecified cases (repeated elements, out-of-range '
               'indexes, position of an already-listed task on insert/append, internal order of a moved block, tie '
               'order under reverse sort, list-valued sort keys, cross-WBS adoption) are not judged']

FUZZ = [('random-legal', 4000)]       # thorough tier: coverage-guided sub-run (vf/fuzz.py), runs per process x 16 processes


def streams(tier):
    return hist_streams('C16', 'legal', 8000, 80000)
