"""C17 — calendars and the availability search mean exactly what they say."""
import itertools
from datetime import datetime, timedelta

from hypothesis import strategies as st

from ..collect import Result
from ..env import dt
from ..runner import Stream
from ..specs import iso

ID = 'C17'
RULE = ('Stream "trees": calendar expression trees of depth <= 3 over weekly (list and dict form, optional start/end at '
        'arbitrary times of day), dated (constructor + set_units with time-of-day keys) and fixed leaves and numeric right '
        'operands, operators + - * / |; queried at validity bounds +- {0, 1us, 1 day}, dated keys and random times.  Oracle '
        'per node, relative to the operands\' own values on that date: None operands skipped, + sum, * product, / quotient, '
        '- negative => None/0, | first positive operand else None/0, numbers constant; leaves: configured value inside '
        'validity [start, end] (full time stamps), None/0 outside; Resource.get_available_units == value or 0, '
        'never None.  Stream "search": brute-force reference of get_nearest_availability_date (both directions, horizons '
        '0/1/2/5/40, start dates with time of day): earliest whole-day offset with positive capacity, RuntimeError exactly '
        'when none within the horizon.  Stream "invalid": definitions that must raise RuntimeError.  Small scope: all trees '
        'of depth <= 1 (thorough: <= 2) over 5 fixed leaves x 12 dates.  Non-trivial = tree with >= 2 operators queried '
        'within one day of a validity bound of one of its leaves, or a search whose answer is at offset >= 2 or at the '
        'horizon; distinct = distinct case.')
ASSUMPTIONS = ['a divisor operand that evaluates to 0 on the query date leaves that (tree, date) unjudged',
               'bool scalars are not numbers here', 'floats compared with 1e-9 tolerance']

B = datetime(2024, 1, 1)      # Monday
OPS = ['+', '-', '*', '/', '|']
UNITS = [0, 1, 8, 0.5, 2.5, 24]


def when(draw, lo=-3, hi=12):
    return B + timedelta(days=draw(st.integers(lo, hi)), hours=draw(st.sampled_from([0, 0, 0, 9, 12, 23])),
                         minutes=draw(st.sampled_from([0, 0, 30, 59])))


@st.composite
def leaf(draw):
    # ['holiday', leaf, [days]]: an instance of a USER SUBCLASS of the leaf's calendar class that overrides get_available_units
    # (0 on the listed days, the inherited answer otherwise) - operators must use the operand's value, not its week table
    if draw(st.integers(0, 5)) == 0:
        inner = draw(plain_leaf())
        hol = sorted({iso(B + timedelta(days=draw(st.integers(-3, 12)))) for _ in range(draw(st.integers(1, 4)))})
        return ['holiday', inner, hol]
    return draw(plain_leaf())


@st.composite
def plain_leaf(draw):
    k = draw(st.sampled_from(['weekly', 'weekly', 'weeklydict', 'direct', 'fixed']))
    start = end = None
    if k != 'direct' and draw(st.integers(0, 2)) == 0:
        a, b = when(draw), when(draw)
        if a > b:
            a, b = b, a
        which = draw(st.sampled_from(['both', 'start', 'end']))
        start = a if which in ('both', 'start') else None
        end = b if which in ('both', 'end') else None
    if k == 'weekly':
        return ['weekly', sorted(draw(st.sets(st.integers(0, 6)))), draw(st.sampled_from(UNITS)), iso(start), iso(end)]
    if k == 'weeklydict':
        return ['weeklydict', {str(d): draw(st.sampled_from(UNITS)) for d in sorted(draw(st.sets(st.integers(0, 6), min_size=1)))},
                iso(start), iso(end)]
    if k == 'fixed':
        return ['fixed', draw(st.sampled_from(UNITS)), iso(start), iso(end)]
    base = {iso(B + timedelta(days=draw(st.integers(-2, 10)))): draw(st.sampled_from(UNITS)) for _ in range(draw(st.integers(0, 4)))}
    extra = {iso(when(draw)): draw(st.sampled_from(UNITS)) for _ in range(draw(st.integers(0, 2)))}
    return ['direct', base, extra]


def tree(depth):
    if depth == 0:
        return leaf()
    sub = tree(depth - 1)
    right = st.one_of(sub, sub, st.tuples(st.just('num'), st.sampled_from([0, 1, 2, 0.5, 8, 3])).map(list))
    def fix(t):
        # "/ 0" with the NUMBER zero is an invalid definition (stream "invalid"), not a tree
        if t[0] == '/' and t[2][0] == 'num' and t[2][1] == 0:
            return ['/', t[1], ['num', 4]]
        return t
    # ['dup', op, t]: ONE calendar object used as both operands of op (operand objects may be shared)
    dup = st.tuples(st.just('dup'), st.sampled_from(['+', '-', '*', '|']), sub).map(list)
    # a number may also stand on the LEFT of an operator (2 * cal, 10 - cal, 16 / cal, 1 | cal)
    numl = st.tuples(st.just('num'), st.sampled_from([0, 1, 2, 0.5, 8, 3, 10, 16])).map(list)
    return st.one_of(leaf(), st.tuples(st.sampled_from(OPS), sub, right).map(list).map(fix),
                     st.tuples(st.sampled_from(OPS), sub, right).map(list).map(fix), dup,
                     st.tuples(st.sampled_from(OPS), numl, sub).map(list))


def bounds_of(t):
    out = []
    if t[0] in ('weekly',):
        out += [t[3], t[4]]
    elif t[0] in ('weeklydict', 'fixed'):
        out += [t[2], t[3]]
    elif t[0] == 'direct':
        out += list(t[1]) + list(t[2])
    elif t[0] in OPS:
        out += bounds_of(t[1]) + bounds_of(t[2])
    elif t[0] == 'holiday':
        out += bounds_of(t[1]) + list(t[2])
    elif t[0] == 'dup':
        out += bounds_of(t[2])
    return [b for b in out if b]


@st.composite
def tree_case(draw):
    t = draw(tree(3))
    bs = bounds_of(t)
    dates = []
    for _ in range(draw(st.integers(2, 6))):
        if bs and draw(st.booleans()):
            b = dt(draw(st.sampled_from(bs)))
            d = b + draw(st.sampled_from([timedelta(0), timedelta(microseconds=1), -timedelta(microseconds=1), timedelta(days=1),
                                          -timedelta(days=1), timedelta(hours=5), -timedelta(hours=5)]))
        else:
            d = when(draw, -5, 16)
        dates.append(iso(d))
    return dict(tree=t, dates=dates, ctor=draw(st.sampled_from(['op', 'op', 'op', 'class-list', 'class-gen'])))


# ------------------------------------------------------------------------------ building real calendars

class Node:
    pass


class Unjudged(Exception):
    pass


def build(t, ctor='op'):
    from pjplan import WeeklyCalendar, DirectCalendar, FixedCalendar
    n = Node()
    n.spec = t
    n.kids = []
    k = t[0]
    if k == 'holiday':
        inner = build(t[1], ctor).cal
        hol = {day(dt(x)) for x in t[2]}
        base = type(inner)

        def get_available_units(self, date, _base=base, _hol=hol):
            if datetime(date.year, date.month, date.day) in _hol:
                return 0
            return _base.get_available_units(self, date)
        sub = type('Holiday' + base.__name__, (base,), {'get_available_units': get_available_units})
        i = t[1]
        if i[0] == 'weekly':
            n.cal = sub(start=dt(i[3]), end=dt(i[4]), days=list(i[1]), units_per_day=i[2])
        elif i[0] == 'weeklydict':
            n.cal = sub(start=dt(i[2]), end=dt(i[3]), units_per_day={int(a): b for a, b in i[1].items()})
        elif i[0] == 'fixed':
            n.cal = sub(i[1], dt(i[2]), dt(i[3]))
        else:
            n.cal = sub({dt(a): b for a, b in i[1].items()})
            if i[2]:
                n.cal.set_units({dt(a): b for a, b in i[2].items()})
    elif k == 'weekly':
        n.cal = WeeklyCalendar(start=dt(t[3]), end=dt(t[4]), days=list(t[1]), units_per_day=t[2])
    elif k == 'weeklydict':
        n.cal = WeeklyCalendar(start=dt(t[2]), end=dt(t[3]), units_per_day={int(a): b for a, b in t[1].items()})
    elif k == 'fixed':
        n.cal = FixedCalendar(t[1], dt(t[2]), dt(t[3]))
    elif k == 'direct':
        n.cal = DirectCalendar({dt(a): b for a, b in t[1].items()})
        if t[2]:
            n.cal.set_units({dt(a): b for a, b in t[2].items()})
    elif k == 'num':
        n.cal = None
        n.num = t[1]
    elif k == 'dup':
        sub = build(t[2], ctor)
        n.kids = [sub, sub]
        n.spec = [t[1], t[2], t[2]]
        n.cal = {'+': lambda a: a + a, '-': lambda a: a - a, '*': lambda a: a * a, '|': lambda a: a | a}[t[1]](sub.cal)
    else:
        l, r = build(t[1], ctor), build(t[2], ctor)
        n.kids = [l, r]
        rv = r.num if r.cal is None else r.cal
        if l.cal is None:
            lv = l.num
            n.cal = lv + rv if k == '+' else lv - rv if k == '-' else lv * rv if k == '*' else lv / rv if k == '/' else lv | rv
        elif ctor != 'op' and r.cal is not None:
            # the operator classes are public too; their argument is documented as an iterable of calendars
            import pjplan.calendar as PC
            cls = {'+': PC.WorkCalendarSum, '-': PC.WorkCalendarSub, '*': PC.WorkCalendarsMul, '/': PC.WorkCalendarDiv, '|': PC.WorkCalendarDisjunction}[k]
            n.cal = cls([l.cal, r.cal]) if ctor == 'class-list' else cls(c for c in [l.cal, r.cal])
        elif k == '+':
            n.cal = l.cal + rv
        elif k == '-':
            n.cal = l.cal - rv
        elif k == '*':
            n.cal = l.cal * rv
        elif k == '/':
            n.cal = l.cal / rv
        elif k == '|':
            n.cal = l.cal | rv
    return n


def day(d):
    return datetime(d.year, d.month, d.day)


def leaf_expect(t, d):
    """-> ('exact', v) | ('none',) | ('either', v)"""
    k = t[0]
    if k == 'holiday':
        if day(d) in {day(dt(x)) for x in t[2]}:
            return ('exact', 0)
        return leaf_expect(t[1], d)
    if k == 'direct':
        m = {}
        for a, b in t[1].items():
            m[day(dt(a))] = b
        for a, b in t[2].items():
            m[day(dt(a))] = b
        if day(d) in m:
            return ('exact', m[day(d)])
        return ('none',)
    if k == 'weekly':
        s, e = dt(t[3]), dt(t[4])
        v = t[2] if d.weekday() in t[1] else 0
    elif k == 'weeklydict':
        s, e = dt(t[2]), dt(t[3])
        v = t[1].get(str(d.weekday()), 0)
    else:
        s, e = dt(t[2]), dt(t[3])
        v = t[1]
    inside = (s is None or d >= s) and (e is None or d <= e)
    if inside:
        return ('exact', v)
    # validity is [start, end] on full time stamps (start / end are datetimes): one microsecond outside is outside
    return ('none',)


def close(a, b):
    return a is not None and b is not None and abs(a - b) <= 1e-9 * max(1, abs(a), abs(b))


def value(n, d):
    """real value of a node (numbers are constants); ZeroDivisionError -> Unjudged"""
    if n.cal is None:
        return n.num
    try:
        return n.cal.get_available_units(d)
    except ZeroDivisionError:
        raise Unjudged()


def check_node(n, d, v, path='root'):
    k = n.spec[0]
    if k == 'num':
        return
    for i, kid in enumerate(n.kids[:1] if len(n.kids) == 2 and n.kids[0] is n.kids[1] else n.kids):
        check_node(kid, d, v, path + '.' + 'LR'[i])
    try:
        got = n.cal.get_available_units(d)
    except ZeroDivisionError:
        return
    except Exception as e:
        v('C17:%s-raises-%s' % (k if k in OPS else 'leaf:' + k, type(e).__name__), dict(node=n.spec, date=d, error=repr(e)[:200]))
        return
    if k not in OPS:
        exp = leaf_expect(n.spec, d)
        ok = (exp[0] == 'exact' and close(got, exp[1])) or (exp[0] == 'none' and (got is None or got == 0)) or \
             (exp[0] == 'either' and (got is None or got == 0 or close(got, exp[1])))
        if not ok:
            v('C17:leaf-value(%s,%s)' % (k, 'inside-validity' if exp[0] == 'exact' else 'outside-validity'),
              dict(node=n.spec, date=d, got=got, expected=exp))
        return
    try:
        vals = [value(x, d) for x in n.kids]
    except Unjudged:
        return
    except Exception as e:
        v('C17:operand-raises-%s' % type(e).__name__, dict(node=n.spec, date=d, error=repr(e)[:200]))
        return
    known = [x for x in vals if x is not None]
    nothing = lambda g: g is None or g == 0
    if k == '|':
        pos = [x for x in vals if x is not None and x > 0]
        ok = close(got, pos[0]) if pos else nothing(got)
        exp = pos[0] if pos else None
    elif not known:
        ok, exp = nothing(got), None
    else:
        exp = known[0]
        for x in known[1:]:
            if k == '+':
                exp = exp + x
            elif k == '-':
                exp = exp - x
            elif k == '*':
                exp = exp * x
            elif k == '/':
                if x == 0:
                    return
                exp = exp / x
        if k == '-' and exp < 0:
            ok = nothing(got)
        else:
            ok = close(got, exp)
    if not ok:
        v('C17:operator(%s)-disagrees-with-operand-values' % k, dict(node=n.spec, date=d, operands=vals, got=got, expected=exp))


def ops_count(t):
    if t[0] == 'dup':
        return 1 + ops_count(t[2])
    return (1 + ops_count(t[1]) + ops_count(t[2])) if t[0] in OPS else 0


def check_tree(case, exclude=True):
    from pjplan import Resource
    res = Result()
    t = case['tree']
    try:
        root = build(t, case.get('ctor') or 'op')
    except Exception as e:
        res.v('C17:valid-definition-raises-%s' % type(e).__name__, dict(tree=t, error=repr(e)[:200]))
        return res
    r = Resource('r', root.cal)
    near = False
    bs = [dt(b) for b in bounds_of(t)]
    for ds in case['dates']:
        d = dt(ds)
        check_node(root, d, res.v)
        try:
            cv = root.cal.get_available_units(d)
            rv = r.get_available_units(d)
            if rv is None or not (close(rv, cv) if cv is not None else rv == 0):
                res.v('C17:resource-value-is-not-calendar-value-or-0', dict(date=d, calendar=cv, resource=rv))
        except ZeroDivisionError:
            pass
        except Exception as e:
            res.v('C17:valid-expression-raises-%s' % type(e).__name__, dict(tree=t, date=d, error=repr(e)[:200]))
            break
        if any(abs(d - b) <= timedelta(days=1) for b in bs):
            near = True
    n = ops_count(t)
    res.label('ops:%d' % min(n, 4), 'near-bound' if near else 'far-from-bounds')
    res.nontrivial = n >= 2 and near
    res.sample = case
    return res


# ------------------------------------------------------------------------------ search

@st.composite
def search_case(draw):
    t = draw(tree(2))
    return dict(tree=t, start=iso(when(draw, -5, 20)), direction=draw(st.sampled_from([1, -1])),
                max_days=draw(st.sampled_from([0, 1, 2, 5, 40])))


def check_search(case, exclude=True):
    from pjplan import Resource
    res = Result()
    try:
        root = build(case['tree'])
    except Exception as e:
        res.v('C17:valid-definition-raises-%s' % type(e).__name__, dict(tree=case['tree'], error=repr(e)[:200]))
        return res
    r = Resource('r', root.cal)
    s, direction, md = dt(case['start']), case['direction'], case['max_days']
    exp = None
    try:
        for k in range(md):
            probe = s + timedelta(days=k) if direction > 0 else s - timedelta(days=k) - timedelta(days=1)
            if r.get_available_units(probe) > 0:
                exp = s + timedelta(days=k) * (1 if direction > 0 else -1)
                off = k
                break
    except ZeroDivisionError:
        res.label('unjudged-division-by-zero-operand')
        return res
    except Exception as e:
        res.v('C17:valid-expression-raises-%s' % type(e).__name__, dict(case=case, error=repr(e)[:200]))
        return res
    try:
        got = r.get_nearest_availability_date(s, direction, md)
        err = None
    except ZeroDivisionError:
        res.label('unjudged-division-by-zero-operand')
        return res
    except RuntimeError as e:
        got, err = None, e
    except Exception as e:
        res.v('C17:search-raises-%s' % type(e).__name__, dict(case=case, error=repr(e)[:200]))
        return res
    tag = 'forward' if direction > 0 else 'backward'
    if exp is None:
        if err is None:
            res.v('C17:search(%s)-returns-although-nothing-within-horizon' % tag, dict(case=case, got=got))
    else:
        if err is not None:
            res.v('C17:search(%s)-raises-although-capacity-within-horizon' % tag, dict(case=case, expected=exp))
        elif got != exp:
            res.v('C17:search(%s)-returns-wrong-date' % tag, dict(case=case, got=got, expected=exp))
    res.label(tag, 'horizon:%d' % md, 'found' if exp is not None else 'not-found')
    res.nontrivial = (exp is not None and (off >= 2 or off == md - 1)) or (exp is None and md >= 2)
    res.sample = dict(case, expected=exp)
    return res


# ------------------------------------------------------------------------------ invalid definitions

INVALID = [
    ('weekly-list-weekday--1', lambda P: P.WeeklyCalendar(days=[0, -1], units_per_day=8)),
    ('weekly-list-weekday-7', lambda P: P.WeeklyCalendar(days=[7], units_per_day=8)),
    ('weekly-dict-weekday-7', lambda P: P.WeeklyCalendar(units_per_day={7: 1})),
    ('weekly-dict-weekday--1', lambda P: P.WeeklyCalendar(units_per_day={0: 8, -1: 1})),
    ('weekly-negative-units', lambda P: P.WeeklyCalendar(days=[0], units_per_day=-1)),
    ('weekly-negative-float-units', lambda P: P.WeeklyCalendar(days=[0], units_per_day=-0.5)),
    ('weekly-dict-negative-units', lambda P: P.WeeklyCalendar(units_per_day={0: -1})),
    ('fixed-negative-units', lambda P: P.FixedCalendar(-1)),
    ('dated-negative-units', lambda P: P.DirectCalendar({B: -1})),
    ('dated-set_units-negative-units', lambda P: P.DirectCalendar({B: 1}).set_units({B: -2})),
    ('weekly-start-after-end', lambda P: P.WeeklyCalendar(start=B + timedelta(days=2), end=B, days=[0], units_per_day=8)),
    ('weekly-start-after-end-same-day', lambda P: P.WeeklyCalendar(start=B + timedelta(hours=2), end=B, days=[0], units_per_day=8)),
    ('fixed-start-after-end', lambda P: P.FixedCalendar(8, B + timedelta(days=2), B)),
    ('division-by-int-zero', lambda P: P.WeeklyCalendar(days=[0], units_per_day=8) / 0),
    ('division-by-float-zero', lambda P: P.WeeklyCalendar(days=[0], units_per_day=8) / 0.0),
    ('division-by-zero-of-composite', lambda P: (P.FixedCalendar(8) + 1) / 0),
    ('plus-negative-number', lambda P: P.FixedCalendar(8) + (-1)),
    ('or-negative-number', lambda P: P.FixedCalendar(8) | -2),
]


def _rejected_update(P):
    # a refused set_units must leave the dated calendar as configured before
    c = P.DirectCalendar({B: 6})
    try:
        c.set_units({B: -4, B + timedelta(days=1): 3})
    except RuntimeError:
        if c.get_available_units(B) != 6 or c.get_available_units(B + timedelta(days=1)) not in (None, 0):
            raise AssertionError('refused set_units changed the calendar: %r / %r' % (
                c.get_available_units(B), c.get_available_units(B + timedelta(days=1))))
        c.set_units({B + timedelta(days=2): 2})          # and the calendar stays usable
        if c.get_available_units(B + timedelta(days=2)) != 2:
            raise AssertionError('valid set_units after a refused one has no effect')
        raise


INVALID.append(('dated-set_units-refused-update-leaves-calendar-unchanged', _rejected_update))


def check_invalid(case, exclude=True):
    import pjplan
    res = Result()
    name, fn = INVALID[case['k']]
    try:
        fn(pjplan)
        res.v('C17:invalid-definition-accepted(%s)' % name, None)
    except RecursionError as e:
        res.v('C17:invalid-definition-raises-RecursionError(%s)' % name, None)
    except RuntimeError:
        pass
    except AssertionError as e:
        res.v('C17:rejected-definition-changed-the-calendar(%s)' % name, dict(error=str(e)))
    except Exception as e:
        res.v('C17:invalid-definition-raises-%s(%s)' % (type(e).__name__, name), dict(error=repr(e)[:200]))
    res.nontrivial = True
    res.label('invalid:' + name)
    res.sample = name
    return res


# ------------------------------------------------------------------------------ small scope

FIXED_LEAVES = [
    ['weekly', [0, 1, 2, 3, 4], 8, None, None],
    ['weekly', [5, 6], 4, iso(B + timedelta(days=2)), iso(B + timedelta(days=9, hours=12))],
    ['direct', {iso(B + timedelta(days=1)): 0, iso(B + timedelta(days=3)): 6}, {iso(B + timedelta(days=5, hours=10)): 2}],
    ['fixed', 2, None, iso(B + timedelta(days=4))],
    ['weeklydict', {'0': 0.5, '2': 0}, iso(B + timedelta(days=1, hours=9)), None],
]
DATES12 = [iso(B + timedelta(days=k, hours=h)) for k, h in [(-1, 0), (0, 0), (1, 8), (1, 9), (2, 0), (3, 12), (4, 0), (4, 1), (5, 23), (9, 12), (9, 13), (12, 0)]]


def small_trees(depth):
    lv = list(FIXED_LEAVES)
    if depth == 0:
        return lv
    sub = small_trees(depth - 1)
    out = list(lv)
    for op in OPS:
        for l in sub:
            for r in sub + [['num', 2]]:
                out.append([op, l, r])
    return out


def exhaustive(tier):
    for t in small_trees(1 if tier == 'quick' else 2):
        yield dict(tree=t, dates=DATES12)

FUZZ = [('trees', 6000), ('search', 3000)]       # thorough tier: coverage-guided sub-run (vf/fuzz.py), runs per process x 16 processes


def streams(tier):
    return [Stream('trees', check_tree, strategy=tree_case, examples={'quick': 6000, 'thorough': 120000}),
            Stream('search', check_search, strategy=search_case, examples={'quick': 4000, 'thorough': 60000}),
            Stream('invalid', check_invalid, exhaustive=lambda tier: ({'k': k} for k in range(len(INVALID)))),
            Stream('small-trees', check_tree, exhaustive=exhaustive)]
