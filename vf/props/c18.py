"""C18 — task queries select exactly the matching tasks; bulk operations touch only those."""
import itertools
import re

from hypothesis import strategies as st

from .. import specs
from ..collect import Result
from ..runner import Stream
from ..specs import Model

ID = 'C18'
RULE = ('Populations of 3-8 tasks in a WBS (depth <= 3) whose attributes name / resource / estimate / spent / milestone and two '
        'custom attributes are each present with a pooled value, present with None or (custom) absent; receivers: WBS.tasks, '
        'WBS.roots, a children list, all_children, a query result; 1-3 keyword filters from {plain, _in_, _not_in_, '
        '_is_none_, _is_not_none_, _ne_, _lt_, _le_, _gt_, _ge_, _like_, _not_like_} x {id, parent_id, name, resource, '
        'estimate, spent, milestone, custom} with pooled values (selectivity neither 0 nor 1), or one callable predicate.  '
        'Oracle: independent evaluator (absent == None; comparison and pattern filters false on None); result must be the same '
        'objects in list order and the population snapshot unchanged; result.attr = v sets attr on exactly the selected tasks; '
        'remove_all on a children list / roots list / WBS returns the selected tasks and removes exactly them with their '
        'subtrees, every other relation unchanged.  Small scope: every single filter (attribute x suffix x pooled value) on a '
        'fixed population.  Non-trivial = query selecting a proper non-empty subset with >= 1 suffix filter on an attribute '
        'that is absent or None for >= 1 task; distinct = distinct case.')
ASSUMPTIONS = ['comparison filters only between values of one type; _is_none_/_is_not_none_ only with True; regexes only on string attributes',
               'attribute names equal to parameter names of the query call itself (key, self) are not used as plain keywords']

POOL = {
    'name': ['alpha', 'beta', 'Alpha 2', 'gamma ray', None],
    'resource': ['ann', 'bob', None],
    'estimate': [None, 0, 3, 5, 8.5],
    'spent': [None, 0, 3, 1.5],
    'milestone': [True, False],
    'tag': ['red', 'blue', None, '<absent>'],
    'prio': [1, 2, 3, None, '<absent>'],
    # custom attribute names that embed operator tokens of the filter language
    'days_in_status': [5, 9, None, '<absent>'],
    'opt_in': [True, False, '<absent>'],
    'looks_like_x': ['alpha', 'beta', None, '<absent>'],
    't': [1, 2, None, '<absent>'],             # a one-letter attribute name
    # declared by the user's Task subclass (class-level default 'B'; some instances override it) - plain Tasks lack it
    'grade': ['A', 'B', 'C', '<absent>'],
}
CUSTOM = ('tag', 'prio', 'days_in_status', 'opt_in', 'looks_like_x', 't', 'grade')
SUBCLASS_DEFAULTS = {'grade': 'B'}
REGEX = ['^a', 'a$', 'l', '[A-Z]', 'e.a', ' ', '^$', 'b|r']
STRINGY = ('name', 'resource', 'tag', 'looks_like_x', 'grade')
ORDERED = ('id', 'parent_id', 'name', 'resource', 'estimate', 'spent', 'tag', 'prio', 'days_in_status', 't', 'grade', 'weight')
SUFFIXES = ['', '_in_', '_not_in_', '_is_none_', '_is_not_none_', '_ne_', '_lt_', '_le_', '_gt_', '_ge_', '_like_', '_not_like_']
PREDICATES = {
    'even-id': lambda t: t.id % 2 == 0,
    'has-children': lambda t: len(t.children) > 0,
    'named': lambda t: t.name is not None,
    'never': lambda t: False,
    'always': lambda t: True,
    'big': lambda t: (t.estimate or 0) > 3,
}


def values_for(attr, n_ids):
    if attr in ('id', 'parent_id'):
        return list(range(1, n_ids + 1))
    if attr == 'weight':
        return [0, 4, 5, 7, 9]
    return [x for x in POOL[attr] if x != '<absent>']


@st.composite
def one_filter(draw, n_ids):
    attr = draw(st.sampled_from(['id', 'parent_id', 'name', 'resource', 'estimate', 'spent', 'milestone', 'tag', 'prio', 'days_in_status', 'opt_in', 'looks_like_x', 't', 'grade', 'weight']))
    suf = draw(st.sampled_from(SUFFIXES))
    vals = values_for(attr, n_ids)
    if suf in ('_is_none_', '_is_not_none_'):
        return [attr, suf, True]
    if suf in ('_like_', '_not_like_'):
        if attr not in STRINGY:
            attr = draw(st.sampled_from(STRINGY))
        return [attr, suf, draw(st.sampled_from(REGEX))]
    if suf in ('_in_', '_not_in_'):
        pool = vals + ([None] if attr == 'parent_id' else [])
        return [attr, suf, draw(st.lists(st.sampled_from(pool), min_size=0, max_size=3))]
    if suf in ('_lt_', '_le_', '_gt_', '_ge_'):
        if attr in ('milestone', 'opt_in'):
            attr = 'prio'
            vals = values_for(attr, n_ids)
        return [attr, suf, draw(st.sampled_from([x for x in vals if x is not None]))]
    if suf == '_ne_':
        return [attr, suf, draw(st.sampled_from([x for x in vals if x is not None]))]
    pool = vals + ([None] if attr == 'parent_id' else [])
    return [attr, suf, draw(st.sampled_from(pool))]


@st.composite
def population(draw, max_tasks=8):
    spec = draw(specs.wbs_spec(max_tasks=max_tasks, min_tasks=3, min_start=False, milestones=False))
    for t in spec['tasks']:
        for a in ('name', 'resource', 'estimate', 'spent', 'milestone'):
            t[a] = draw(st.sampled_from(POOL[a]))
        t['custom'] = {}
        for a in CUSTOM:
            x = draw(st.sampled_from(POOL[a]))
            if x != '<absent>':
                t['custom'][a] = x
    return spec


@st.composite
def query_case(draw, max_tasks=8):
    spec = draw(population(max_tasks))
    n = len(spec['tasks'])
    recv = draw(st.sampled_from(['wbs.tasks', 'wbs.tasks', 'wbs.roots', 'children', 'all_children', 'query-result']))
    k = draw(st.integers(0, 7))
    if k == 0:
        flt = dict(pred=draw(st.sampled_from(sorted(PREDICATES))))
    elif k == 1:
        # "every filter holds": a predicate together with keyword filters
        flt = dict(pred=draw(st.sampled_from(sorted(PREDICATES))), kw=draw(st.lists(one_filter(n), min_size=1, max_size=2)))
    else:
        flt = dict(kw=draw(st.lists(one_filter(n), min_size=1, max_size=3)))
    flt['in_form'] = draw(st.sampled_from(['list', 'list', 'tuple', 'set', 'iterator', 'generator']))
    if draw(st.integers(0, 3)) == 0:
        spec['subclass'] = True
    action = draw(st.sampled_from(['query', 'query', 'query', 'assign', 'remove_all']))
    if action == 'remove_all':
        recv = draw(st.sampled_from(['wbs', 'wbs.roots', 'children', 'predecessors', 'successors']))
    elif draw(st.integers(0, 5)) == 0:
        recv = draw(st.sampled_from(['predecessors', 'successors']))
    ext = []
    if recv in ('predecessors', 'successors'):
        # the link list of one task holds members and tasks outside the WBS - some with the id of a member
        for k in range(draw(st.integers(1, 3))):
            e = dict(id=draw(st.integers(1, n)), parent=None)
            for a in ('name', 'resource', 'estimate', 'spent', 'milestone'):
                e[a] = draw(st.sampled_from(POOL[a]))
            e['custom'] = {}
            for a in CUSTOM:
                x = draw(st.sampled_from(POOL[a]))
                if x != '<absent>':
                    e['custom'][a] = x
            ext.append(e)
        if draw(st.integers(0, 2)) == 0:
            # the shortest query there is: one plain equality, on a value that an outsider shares with a member
            # (lookups "by id" that stop at the first hit would pass everywhere but here)
            e = draw(st.sampled_from(ext))
            a = draw(st.sampled_from(['id', 'id', 'name', 'resource', 'estimate']))
            flt = dict(kw=[[a, '', e[a]]], in_form='list')
    return dict(spec=spec, recv=recv, of=draw(st.integers(0, 20)), flt=flt, action=action, ext=ext,
                assign=[draw(st.sampled_from(['tag', 'name', 'resource', 'prio', 'color'])), draw(st.sampled_from(['zz', 7, None]))])


# ------------------------------------------------------------------------------ independent evaluator

def attr_value(t_spec, attr, parent, sub=False):
    """value of an attribute as the user sees it; sub: the task is an instance of the user's Task subclass
    (class-level default for `grade`, computed `weight`)"""
    if attr == 'id':
        return t_spec['id']
    if attr == 'parent_id':
        return parent
    if attr == 'weight':
        return len(t_spec.get('name') or '') if sub else None
    if attr in CUSTOM + ('color',):
        c = t_spec.get('custom') or {}
        if attr in c:
            return c[attr]
        return SUBCLASS_DEFAULTS.get(attr) if sub else None
    return t_spec[attr]


def holds(val, suf, v):
    if suf == '':
        return val == v
    if suf == '_in_':
        return val in v
    if suf == '_not_in_':
        return val not in v
    if suf == '_is_none_':
        return val is None
    if suf == '_is_not_none_':
        return val is not None
    if val is None:
        return False
    if suf == '_ne_':
        return val != v
    if suf == '_lt_':
        return val < v
    if suf == '_le_':
        return val <= v
    if suf == '_gt_':
        return val > v
    if suf == '_ge_':
        return val >= v
    if suf == '_like_':
        return re.search(v, val) is not None
    if suf == '_not_like_':
        return re.search(v, val) is None
    raise AssertionError(suf)


def comparable(val, v):
    if val is None:
        return True
    num = (int, float)
    if isinstance(val, bool) or isinstance(v, bool):
        return isinstance(val, bool) and isinstance(v, bool)
    return (isinstance(val, num) and isinstance(v, num)) or (isinstance(val, str) and isinstance(v, str))


def snapshot(objs):
    out = {}
    for i, t in objs.items():
        out[i] = (t.parent.id if t.parent else None, [c.id for c in t.children], [p.id for p in t.predecessors],
                  sorted(s.id for s in t.successors), dict(t.to_dict()), t.estimate, t.spent, t.wbs is not None)
    return out


def check(case, exclude=True):
    res = Result()
    spec = case['spec']
    m = Model(spec)
    w, objs, _ = specs.build(spec)
    recv = case['recv']
    summaries = [i for i in m.order if not m.is_leaf(i)]
    if recv in ('children', 'all_children') and not summaries:
        recv = 'wbs.roots'
    owner = summaries[case['of'] % len(summaries)] if summaries else None
    link_elems = None
    if recv in ('predecessors', 'successors'):
        from pjplan import Task
        owner_l = m.order[case['of'] % len(m.order)]
        lo = objs[owner_l]
        for e in case.get('ext', []):
            x = Task(e['id'], e['name'], resource=e['resource'], estimate=e['estimate'], spent=e['spent'], milestone=e['milestone'], **e['custom'])
            try:
                (lo.predecessors if recv == 'predecessors' else lo.successors).append(x)
            except RuntimeError:
                pass
        lst = lo.predecessors if recv == 'predecessors' else lo.successors
        link_elems = list(lst)
        ext_spec = {}
        for x in link_elems:
            if objs.get(x.id) is not x:
                ext_spec[id(x)] = next(e for e in case['ext'] if e['id'] == x.id and e['name'] == x.name and e['estimate'] == x.estimate
                                       and e['spent'] == x.spent and e['resource'] == x.resource and e['milestone'] == x.milestone
                                       and e['custom'] == {k: v_ for k, v_ in x.__dict__.items() if k in CUSTOM})
        lst_ids = list(range(len(link_elems)))          # positions in the link list stand for the elements
    elif recv == 'wbs.tasks' or recv == 'wbs':
        lst_ids = m.dfs()
        lst = w.tasks
    elif recv == 'wbs.roots':
        lst_ids = list(m.roots)
        lst = w.roots
    elif recv == 'children':
        lst_ids = list(m.children[owner])
        lst = objs[owner].children
    elif recv == 'all_children':
        lst_ids = m.subtree(owner)[1:]
        lst = objs[owner].all_children
    else:
        lst_ids = [i for i in m.dfs() if i % 2 == 1 or m.t[i]['name'] is not None]
        lst = w.tasks(lambda t: t.id % 2 == 1 or t.name is not None)
    flt = case['flt']
    # ---- expected selection
    unjudged = False
    def el_obj(i):
        return link_elems[i] if link_elems is not None else objs[i]

    def el_spec(i):
        if link_elems is None:
            return m.t[i], m.parent[i]
        x = link_elems[i]
        if id(x) in ext_spec:
            return ext_spec[id(x)], None
        return m.t[x.id], m.parent[x.id]
    fn = PREDICATES[flt['pred']] if 'pred' in flt else None
    Sub = specs.calc_task_class() if spec.get('subclass') else None
    if 'kw' not in flt:
        exp = [i for i in lst_ids if fn(el_obj(i))]
        kwargs, key = {}, fn
        suffix_on_missing = False
    else:
        key = fn
        kwargs = {}
        form = flt.get('in_form') or 'list'
        for attr, suf, v in flt['kw']:
            if suf in ('_in_', '_not_in_') and form != 'list':
                # the collection may be any iterable - also one that can be read only once
                try:
                    v = tuple(v) if form == 'tuple' else set(v) if form == 'set' else iter(list(v)) if form == 'iterator' else (x for x in list(v))
                except TypeError:
                    pass
            kwargs[attr + suf] = v
        kws = [(a, s, v) for (a, s, v) in flt['kw']]
        # duplicates of the same keyword collapse to the last one (python kwargs)
        last = {}
        for a, s, v in kws:
            last[a + s] = (a, s, v)
        exp = []
        suffix_on_missing = False
        for i in lst_ids:
            ok = True
            for a, s, v in last.values():
                sp_, par_ = el_spec(i)
                val = attr_value(sp_, a, par_, Sub is not None and isinstance(el_obj(i), Sub))
                if s in ('_lt_', '_le_', '_gt_', '_ge_', '_ne_') and not comparable(val, v):
                    unjudged = True
                if s in ('_like_', '_not_like_') and val is not None and not isinstance(val, str):
                    unjudged = True
                if unjudged:
                    break
                if s and val is None:
                    suffix_on_missing = True
                if not holds(val, s, v):
                    ok = False
            if unjudged:
                break
            if ok and (fn is None or fn(el_obj(i))):
                exp.append(i)
    if unjudged:
        res.label('unjudged-mixed-types')
        return res
    before = snapshot(objs)
    action = case['action']
    res.label('recv:' + recv, 'action:' + action, ('callable+keywords' if kwargs else 'callable') if key else 'keywords:%d' % len(kwargs))
    try:
        if action == 'remove_all':
            target = w if recv == 'wbs' else lst
            out = target.remove_all(key, **kwargs) if key else target.remove_all(**kwargs)
        else:
            out = lst(key, **kwargs) if key else lst(**kwargs)
        if link_elems is not None:
            got = [next((k for k, x in enumerate(link_elems) if x is t), -1) for t in out]
            same_objects = -1 not in got
        else:
            got = [t.id for t in out]
            same_objects = all(objs.get(t.id) is t for t in out)
    except Exception as e:
        res.v('C18:%s-raises-%s' % (action, type(e).__name__), dict(filters=flt, error=repr(e)[:200]))
        return res
    tagset = sorted({'estimate-or-spent-filter' if a in ('estimate', 'spent') else 'other-filters' for a, s, v in flt.get('kw', [])})
    if got != exp or not same_objects:
        res.v('C18:%s-selects-wrong-tasks(%s)' % (action, ','.join(tagset) or 'callable'),
              dict(filters=flt, receiver=recv, list=lst_ids, got=got, expected=exp))
    if action == 'query':
        if snapshot(objs) != before:
            res.v('C18:query-changes-the-population', dict(filters=flt))
    elif action == 'assign':
        a, v = case['assign']
        try:
            setattr(out, a, v)
        except Exception as e:
            res.v('C18:bulk-assignment-raises-%s' % type(e).__name__, dict(attr=a, error=repr(e)[:200]))
            return res
        after = snapshot(objs)
        if link_elems is not None:
            for k, x in enumerate(link_elems):
                if (k in got) != (x.to_dict().get(a, '<absent>') == v) and not (k not in got and x.to_dict().get(a, '<absent>') == v):
                    res.v('C18:bulk-assignment-on-a-dependency-list-wrong', dict(task=x.id, attr=a)); break
        for i in (m.order if link_elems is None else []):
            if i in got:
                if objs[i].to_dict().get(a, '<absent>') != v:
                    res.v('C18:bulk-assignment-missed-a-selected-task', dict(task=i, attr=a)); break
                b4 = dict(before[i][4]); af = dict(after[i][4])
                b4.pop(a, None); af.pop(a, None)
                if (before[i][:4], b4) != (after[i][:4], af):
                    res.v('C18:bulk-assignment-changed-more-than-the-attribute', dict(task=i, attr=a)); break
            elif before[i] != after[i]:
                res.v('C18:bulk-assignment-touched-an-unselected-task', dict(task=i, attr=a)); break
    elif link_elems is not None:
        lo = objs[m.order[case['of'] % len(m.order)]]
        now = list(lo.predecessors if recv == 'predecessors' else lo.successors)
        keep = [x for k, x in enumerate(link_elems) if k not in exp]
        if [id(x) for x in now] != [id(x) for x in keep]:
            res.v('C18:remove_all-on-a-dependency-list-leaves-wrong-links', dict(filters=flt, receiver=recv, now=[x.id for x in now], expected=[x.id for x in keep]))
        for k, x in enumerate(link_elems):
            mirror = list(x.successors if recv == 'predecessors' else x.predecessors)
            linked = any(y is lo for y in mirror)
            if (k in exp) == linked:
                res.v('C18:remove_all-on-a-dependency-list-leaves-mirror-side-wrong', dict(task=x.id, selected=k in exp)); break
        after = snapshot(objs)
        for i in m.order:
            if after[i][:2] != before[i][:2] or after[i][4:] != before[i][4:]:
                res.v('C18:remove_all-on-a-dependency-list-changed-hierarchy-or-fields', dict(task=i)); break
    else:
        gone = set()
        for i in got:
            gone |= set(m.subtree(i))
        if recv == 'wbs':
            remaining = [i for i in m.dfs() if i not in gone]
            now = [t.id for t in w.tasks]
        else:
            remaining = [i for i in lst_ids if i not in got]
            now = [t.id for t in (w.roots if recv == 'wbs.roots' else objs[owner].children)]
        if now != remaining:
            res.v('C18:remove_all-leaves-wrong-members', dict(filters=flt, receiver=recv, now=now, expected=remaining))
        members = {t.id for t in w.tasks}
        if members != set(m.order) - gone:
            res.v('C18:remove_all-removes-wrong-set-from-WBS', dict(now=sorted(members), expected=sorted(set(m.order) - gone)))
        after = snapshot(objs)
        # a selected task below another selected task leaves the WBS inside that task's subtree and keeps its place there
        tops = [i for i in got if not any(a in got for a in m.ancestors(i))]
        for i in m.order:
            if i in tops:
                if after[i][0] is not None or after[i][7]:
                    res.v('C18:removed-task-still-attached', dict(task=i)); break
                if after[i][1:7] != before[i][1:7]:
                    res.v('C18:removed-task-lost-its-subtree-or-fields', dict(task=i)); break
            elif i in gone:
                if after[i][7]:
                    res.v('C18:task-below-a-removed-task-still-reports-the-WBS', dict(task=i)); break
                if after[i][:7] != before[i][:7]:
                    res.v('C18:remove_all-changed-a-task-inside-a-removed-subtree', dict(task=i)); break
            else:
                exp_children = [c for c in before[i][1] if c not in tops]
                if (after[i][0], after[i][1], after[i][2:]) != (before[i][0], exp_children, before[i][2:]):
                    res.v('C18:remove_all-touched-an-unselected-task', dict(task=i)); break
    res.nontrivial = 0 < len(exp) < len(lst_ids) and suffix_on_missing
    res.sample = dict(receiver=recv, action=action, filters=flt, list=lst_ids, selected=exp,
                      tasks=[[t['id'], t['parent'], t['name'], t['resource'], t['estimate'], t['spent'], t['milestone'], t.get('custom')] for t in spec['tasks']])
    return res


# ------------------------------------------------------------------------------ small scope: every single filter

def _fixed_population():
    T = lambda i, p, name, res, est, sp, ms, cu: dict(id=i, name=name, parent=p, resource=res, estimate=est, spent=sp, milestone=ms,
                                                      start=None, end=None, min_start=None, custom=cu)
    return dict(tasks=[T(1, None, 'alpha', 'ann', 5, 0, False, {'tag': 'red', 'prio': 1}),
                       T(2, 1, 'beta', None, None, None, False, {'tag': None}),
                       T(3, 1, None, 'bob', 3, 3, True, {'prio': 3}),
                       T(4, None, 'Alpha 2', 'ann', 8.5, 1.5, False, {}),
                       T(5, 4, 'gamma ray', 'bob', 0, None, False, {'tag': 'blue', 'prio': None}),
                       T(6, 5, 'alpha', None, 3, 0, True, {'tag': 'red', 'prio': 2})], links=[[2, 3], [1, 4]])


def exhaustive(tier):
    spec = _fixed_population()
    for attr in ['id', 'parent_id', 'name', 'resource', 'estimate', 'spent', 'milestone', 'tag', 'prio']:
        vals = values_for(attr, 6)
        for suf in SUFFIXES:
            if suf in ('_is_none_', '_is_not_none_'):
                cands = [True]
            elif suf in ('_like_', '_not_like_'):
                if attr not in STRINGY:
                    continue
                cands = REGEX
            elif suf in ('_in_', '_not_in_'):
                cands = [[]] + [[x] for x in vals] + [list(c) for c in itertools.combinations(vals, 2)]
            elif suf in ('_lt_', '_le_', '_gt_', '_ge_', '_ne_'):
                if attr == 'milestone' and suf != '_ne_':
                    continue
                cands = [x for x in vals if x is not None]
            else:
                cands = vals + ([None] if attr == 'parent_id' else [])
            for v in cands:
                for recv in ('wbs.tasks', 'wbs.roots', 'all_children'):
                    yield dict(spec=spec, recv=recv, of=1, flt=dict(kw=[[attr, suf, v]]), action='query', assign=['tag', 'zz'])
    # link lists that hold a member and an outsider with the same id (and, for the second one, the same name): single plain filters
    for of in range(6):
        own_id = spec['tasks'][of]['id']
        for tid in range(1, 7):
            if tid == own_id:
                continue
            twin = dict(id=tid, parent=None, name=spec['tasks'][tid - 1]['name'], resource='zed', estimate=1, spent=None, milestone=False, custom={'tag': 'red'})
            for recv in ('predecessors', 'successors'):
                for action in ('query', 'assign', 'remove_all'):
                    for kw in ([['id', '', tid]], [['name', '', twin['name']]], [['tag', '', 'red']]):
                        yield dict(spec=spec, recv=recv, of=of, flt=dict(kw=kw), action=action, ext=[twin], assign=['tag', 'zz'])


def streams(tier):
    n = 8
    return [Stream('generated', check, strategy=lambda: query_case(max_tasks=n), examples={'quick': 8000, 'thorough': 150000}),
            Stream('single-filters', check, exhaustive=exhaustive)]
