"""C19 — renderings show every task and dependency exactly once with its real dates."""
import copy
import json
import re
from html import escape
from html.parser import HTMLParser

from hypothesis import strategies as st

from .. import env, sched, specs
from ..collect import Result
from ..env import dt
from ..runner import Stream, is_open
from ..specs import Model

ID = 'C19'
RULE = ('Generated WBS specs (links on leaves and summaries, milestones, gantt_section / gantt_bar_style / network_bar_style / '
        'gantt_open attributes) scheduled forward under a fixed clock; task names are single-line texts over letters, digits, '
        'blanks, " \' { } < > $ : / , ; # % & = ( ) [ ] | - \\\\ and non-ASCII letters, including the tokens </script>, </div>, '
        '}}, -->, $src, ${gantt_data}, <!--.  The three documents are taken apart the way a consumer would: html.parser '
        'extracts the text of <div class="mermaid"> (entities decoded, markup dropped) and the <script> calling gantt.parse; '
        'Mermaid Gantt: exactly one task line per task (recognised from the right) with id, start / end to the minute, '
        'milestone flag, under its section; Mermaid network: a tokenizer for node --> node lines counts edges: one per '
        'dependency, one Start edge per task without predecessors, nothing else; DHTMLX: the gantt.parse argument is JSON '
        'with one entry per task (id, text == name, dates, parent id or 0, 0 <= progress <= 1) and one uniquely numbered '
        'link per dependency.  Metamorphic: replacing every name by "x" changes only the name fields.  _repr_html_() == '
        'iframe wrapper around html.escape(to_html()).  Non-trivial = >= 1 name with one of " { } < > $ : and >= 1 dependency '
        'and (>= 2 sections or a milestone); distinct = distinct case.')
ASSUMPTIONS = ['documents are judged with Python\'s html.parser and a delimiter-level Mermaid tokenizer, not a browser / the Mermaid grammar',
               'None and multi-line names are outside the quantifier']

TOKENS = ['</script>', '</div>', '}}', ' --> ', '$src', '${gantt_data}', '<!--', '-->', '{{', '))', '((', '<b>', '&lt;', '&amp;', '":"', "'", '\\',
          '</SCRIPT>', '<div>', '$', '$$', ':', ';', '#', '%', '=', '[x]', '|', ', ', 'id_1, 01.01.2026 00:00', 'section Z', '"}}', '\\"',
          # an HTML tokenizer ends a script element at "</script" + blank, "/" or ">" in any letter case
          '</script >', '</SCRIPT  >', '</script/>', '</Script\t>', '</script foo="1">', '<script>', '<!--<script>', '</style>', '</textarea >', '</title>']
WORDS = ['Design', 'build', 'Тест', 'naïve', '测试', 'a', 'B2', 'x y']
name_st = st.lists(st.one_of(st.sampled_from(WORDS), st.sampled_from(WORDS), st.sampled_from(TOKENS)), min_size=1, max_size=4).map(' '.join) | \
    st.lists(st.one_of(st.sampled_from(WORDS), st.sampled_from(TOKENS)), min_size=1, max_size=3).map(''.join)


@st.composite
def viz_case(draw, max_tasks=7):
    c = draw(sched.fwd_case(max_tasks=max_tasks, min_tasks=1, fixed=False, names=name_st))
    sections = draw(st.sampled_from([[], ['A'], ['A', 'B'], ['Dev', 'Ops', 'Q/A']]))
    for t in c['spec']['tasks']:
        cu = {}
        if sections and draw(st.integers(0, 3)) > 0:
            cu['gantt_section'] = draw(st.sampled_from(sections))
        if draw(st.integers(0, 4)) == 0:
            cu['gantt_bar_style'] = {'fill': draw(st.sampled_from(['red', '#0f0'])), 'stroke': 'black'}
        if draw(st.integers(0, 4)) == 0:
            cu['network_bar_style'] = {'fill': '#f9f', 'stroke-width': '2px'}
        if draw(st.integers(0, 5)) == 0:
            cu['gantt_open'] = draw(st.sampled_from(['true', 'false']))
        if draw(st.integers(0, 5)) == 0:
            # user attributes named like keys of a chart entry must not replace the entry's own values
            k = draw(st.sampled_from(['progress', 'text', 'type', 'open', 'css_class', 'start_date', 'end_date', 'target', 'source']))
            cu[k] = draw(st.sampled_from(['50', 'in review', 7, 2.5]))
        t['custom'] = cu
    c['options'] = dict(title=draw(st.sampled_from([None, 'Plan 2026', 'Q1'])), weekends=draw(st.booleans()),
                        tick=draw(st.sampled_from([None, '1day', '1week'])), scale=draw(st.sampled_from(['day', 'month', 'year', 'other'])),
                        columns=draw(st.booleans()), today=draw(st.booleans()), height=draw(st.sampled_from([300, 450])))
    c['plain_names'] = draw(st.integers(0, 5)) == 0
    if c['plain_names']:
        for t in c['spec']['tasks']:
            t['name'] = 'Task %s' % t['id']
    return c


# ------------------------------------------------------------------------------ consumers

class _Doc(HTMLParser):
    """collects the text of <div class="mermaid"> and the text of every <script>"""

    def __init__(self):
        super().__init__(convert_charrefs=True)
        self.depth = 0
        self.mermaid = []
        self.divs = 0
        self.in_script = False
        self.scripts = []

    def handle_starttag(self, tag, attrs):
        if tag == 'div':
            if self.depth > 0:
                self.depth += 1
            elif ('class', 'mermaid') in attrs:
                self.depth = 1
                self.divs += 1
        if tag == 'script':
            self.in_script = True
            self.scripts.append('')

    def handle_endtag(self, tag):
        if tag == 'div' and self.depth > 0:
            self.depth -= 1
        if tag == 'script':
            self.in_script = False

    def handle_data(self, data):
        if self.in_script:
            self.scripts[-1] += data
            if self.depth > 0:
                self.mermaid.append(data)
        elif self.depth > 0:
            self.mermaid.append(data)


def parse_doc(html):
    p = _Doc()
    p.feed(html)
    p.close()
    return p


TASK_LINE = re.compile(r':\s+(?:(milestone|done|active),\s*)?id_(-?\w+), (\d\d\.\d\d\.\d{4} \d\d:\d\d), (\d\d\.\d\d\.\d{4} \d\d:\d\d)\s*$')


def gantt_entries(text):
    out = []
    section = None
    for line in text.split('\n'):
        m = re.match(r'^\s*section (.*)$', line)
        if m:
            section = m.group(1)
            continue
        m = TASK_LINE.search(line)
        if m:
            out.append(dict(id=m.group(2), state=m.group(1), start=m.group(3), end=m.group(4), section=section))
    return out


def network_edges(text):
    """tokenise `node (--> node)+` lines; returns (edges, bad_lines)"""
    edges, bad = [], []
    lines = text.split('\n')
    for line in lines:
        s = line.strip()
        if not s or s.startswith('flowchart') or s.startswith('style '):
            continue
        pos = 0
        nodes = []
        ok = True
        while True:
            m = re.match(r'\s*([^\s{(\-]+)', s[pos:])
            if not m:
                ok = False
                break
            nid = m.group(1)
            pos += m.end()
            if s.startswith('{{', pos) or s.startswith('((', pos):
                close = '}}' if s[pos] == '{' else '))'
                if s.startswith('"', pos + 2):
                    end = s.find('"' + close, pos + 3)
                    endlen = 3
                else:
                    end = s.find(close, pos + 2)
                    endlen = 2
                if end < 0:
                    ok = False
                    break
                pos = end + endlen
            nodes.append(nid)
            m = re.match(r'\s*-->\s*', s[pos:])
            if m:
                pos += m.end()
                continue
            if s[pos:].strip() == '':
                break
            ok = False
            break
        if not ok or len(nodes) < 2:
            bad.append(line)
            continue
        for a, b in zip(nodes, nodes[1:]):
            edges.append((a, b))
    return edges, bad


def dhtmlx_payload(doc):
    for sc in doc.scripts:
        k = sc.find('gantt.parse(')
        if k >= 0:
            rest = sc[k + len('gantt.parse('):]
            e = rest.rfind(');')
            if e < 0:
                return None, 'no-closing'
            return rest[:e], None
    return None, 'no-script-calls-gantt.parse'


WRAP = ('<iframe srcdoc="{html}" width="100%" height="{height}" style="border:none !important;" '
        'allowfullscreen webkitallowfullscreen mozallowfullscreen></iframe>')


def render_all(sw, opt=None):
    from pjplan import MermaidGantt, MermaidNetwork, DhtmlxGantt, DhtmlxGanttColumn
    o = opt or {}
    cols = [DhtmlxGanttColumn('name', 200, 'Task', True), DhtmlxGanttColumn('start', 80), DhtmlxGanttColumn('estimate', 50, 'h')] if o.get('columns') else None
    return (MermaidGantt(sw, height=o.get('height', 300), weekends=o.get('weekends', False), tick_interval=o.get('tick'), title=o.get('title')),
            MermaidNetwork(sw, height=o.get('height', 300)),
            DhtmlxGantt(sw, height=o.get('height', 300), today_marker=o.get('today', True), columns=cols, scale=o.get('scale', 'day')))


def analyse(o, v, tag=''):
    """returns the structural content of the three documents (for the metamorphic comparison)"""
    m = o.m
    sw = o.sw
    tasks = list(sw.tasks)
    ids = [str(t.id) for t in tasks]
    mg, mn, dg = render_all(sw, o.case.get('options'))
    out = {}
    name_kind = lambda: 'adversarial-names' if not o.case.get('plain_names') else 'plain-names'
    # ---- Mermaid Gantt
    try:
        html = mg.to_html()
    except Exception as e:
        v('C19:mermaid-gantt-raises-%s' % type(e).__name__, dict(error=repr(e)[:200]))
        html = None
    if html is not None:
        doc = parse_doc(html)
        text = ''.join(doc.mermaid)
        ents = gantt_entries(text)
        out['gantt'] = ents
        got = sorted(e['id'] for e in ents)
        if doc.divs != 1:
            v('C19:mermaid-gantt-document-has-%d-mermaid-blocks' % doc.divs, None)
        elif got != sorted(ids):
            v('C19:mermaid-gantt-task-lines-differ-from-tasks(%s)' % ('missing' if len(got) < len(ids) else 'extra' if len(got) > len(ids) else 'other'),
              dict(got=got, expected=sorted(ids), names=[t.name for t in tasks]))
        else:
            by = {e['id']: e for e in ents}
            multi = len({t.__dict__.get('gantt_section', '-') for t in tasks}) > 1
            for t in tasks:
                e = by[str(t.id)]
                if e['start'] != t.start.strftime('%d.%m.%Y %H:%M') or e['end'] != t.end.strftime('%d.%m.%Y %H:%M'):
                    v('C19:mermaid-gantt-dates-differ', dict(task=t.id, line=e)); break
                if (e['state'] == 'milestone') != bool(t.milestone):
                    v('C19:mermaid-gantt-milestone-flag-differs', dict(task=t.id, line=e)); break
                if multi and 'gantt_section' in t.__dict__ and e['section'] != t.gantt_section:
                    v('C19:mermaid-gantt-task-under-wrong-section', dict(task=t.id, line=e, expected=t.gantt_section)); break
                named = {x.gantt_section for x in tasks if 'gantt_section' in x.__dict__}
                if multi and 'gantt_section' not in t.__dict__ and e['section'] in named:
                    v('C19:mermaid-gantt-sectionless-task-under-a-named-section', dict(task=t.id, line=e)); break
        if mg._repr_html_() != WRAP.format(html=escape(html), height=mg.height):
            v('C19:mermaid-gantt-notebook-representation-is-not-the-escaped-document', None)
    # ---- Mermaid network
    try:
        html = mn.to_html()
    except Exception as e:
        v('C19:mermaid-network-raises-%s' % type(e).__name__, dict(error=repr(e)[:200]))
        html = None
    if html is not None:
        doc = parse_doc(html)
        text = ''.join(doc.mermaid)
        edges, bad = network_edges(text)
        out['network'] = sorted(edges)
        exp = []
        for t in tasks:
            if len(t.predecessors) == 0:
                exp.append(('0', str(t.id)))
            for p in t.predecessors:
                exp.append((str(p.id), str(t.id)))
        if doc.divs != 1:
            v('C19:mermaid-network-document-has-%d-mermaid-blocks' % doc.divs, None)
        elif bad:
            v('C19:mermaid-network-line-is-not-node-arrow-node', dict(lines=bad[:3]))
        elif sorted(edges) != sorted(exp):
            v('C19:mermaid-network-edges-differ(%s)' % ('missing' if len(edges) < len(exp) else 'extra' if len(edges) > len(exp) else 'other'),
              dict(got=sorted(edges), expected=sorted(exp)))
        if mn._repr_html_() != WRAP.format(html=escape(html), height=mn.height):
            v('C19:mermaid-network-notebook-representation-is-not-the-escaped-document', None)
    # ---- DHTMLX
    try:
        html = dg.to_html()
    except Exception as e:
        v('C19:dhtmlx-raises-%s' % type(e).__name__, dict(error=repr(e)[:200]))
        html = None
    if html is not None:
        doc = parse_doc(html)
        payload, why = dhtmlx_payload(doc)
        data = None
        if payload is None:
            v('C19:dhtmlx-%s' % why, None)
        else:
            # html.parser does not implement the "script data double escaped" state of the HTML tokenizer: after "<!--" and
            # "<script" inside a script element the next "</script>" does NOT close it, and the data never reaches gantt.parse.
            # The rule of the HTML standard for embedding data in a script element stands in for that state machine:
            # the data must not contain "<!--", "<script" or "</script" (any letter case).
            mm = re.search(r'<!--|<script|</script', payload, re.I)
            if mm:
                v('C19:dhtmlx-script-data-contains-a-token-that-changes-the-tokenizer-state', dict(token=mm.group(0)))
            try:
                data = json.loads(payload)
            except Exception as e:
                v('C19:dhtmlx-embedded-JSON-is-not-well-formed', dict(error=repr(e)[:200], tail=payload[-200:]))
        if data is not None:
            ents = data.get('data', [])
            out['dhtmlx'] = [{k: x for k, x in e.items() if k not in ('text', 'name')} for e in ents], data.get('links')
            if sorted(str(e.get('id')) for e in ents) != sorted(ids):
                v('C19:dhtmlx-entries-differ-from-tasks', dict(got=[e.get('id') for e in ents], expected=ids))
            else:
                by = {e['id']: e for e in ents}
                member = {id(t) for t in tasks}
                for t in tasks:
                    e = by[t.id]
                    if e.get('text') != t.name:
                        v('C19:dhtmlx-name-differs', dict(task=t.id, got=e.get('text'), expected=t.name)); break
                    if e.get('start_date') != t.start.strftime('%d-%m-%Y %H:%M') or e.get('end_date') != t.end.strftime('%d-%m-%Y %H:%M'):
                        v('C19:dhtmlx-dates-differ', dict(task=t.id, entry=e)); break
                    if e.get('parent') != (t.parent.id if t.parent else 0):
                        v('C19:dhtmlx-parent-differs', dict(task=t.id, got=e.get('parent'))); break
                    pr = e.get('progress')
                    if not isinstance(pr, (int, float)) or not (0 <= pr <= 1):
                        v('C19:dhtmlx-progress-outside-0..1', dict(task=t.id, progress=pr)); break
                    if (e.get('type') == 'milestone') != bool(t.milestone):
                        v('C19:dhtmlx-milestone-type-differs', dict(task=t.id)); break
                links = data.get('links', [])
                exp = sorted((p.id, t.id) for t in tasks for p in t.predecessors)
                if sorted((l.get('source'), l.get('target')) for l in links) != exp:
                    v('C19:dhtmlx-links-differ-from-dependencies', dict(got=links, expected=exp))
                elif len({l.get('id') for l in links}) != len(links):
                    v('C19:dhtmlx-link-ids-not-unique', dict(links=links))
        if dg._repr_html_() != WRAP.format(html=escape(html), height=dg.height):
            v('C19:dhtmlx-notebook-representation-is-not-the-escaped-document', None)
    return out


def check(case, exclude=True):
    res = Result()
    if exclude and is_open('F24') and any(t['name'].replace(':', '').lstrip().startswith('section ') for t in case['spec']['tasks']):
        res.skipped = True
        res.excluded.append('F24')
        return res
    o = sched.run(case)
    if o.error is not None or not sched.complete(o):
        res.label('not-scheduled')
        return res
    env.set_clock(dt(case['N']))
    a = analyse(o, res.v)
    names = [t['name'] for t in case['spec']['tasks']]
    # ---- metamorphic: names replaced by "x"
    if not res.viol:
        charts = render_all(o.sw, case.get('options'))
        shown_before = [c._repr_html_() for c in charts]          # a notebook shows the charts ...
        for t in o.sw.tasks:
            t.name = 'x'                                          # ... the plan is edited ...
        for c, kind in zip(charts, ('mermaid-gantt', 'mermaid-network', 'dhtmlx')):
            if c._repr_html_() != WRAP.format(html=escape(c.to_html()), height=c.height):      # ... and shown again
                res.v('C19:%s-notebook-representation-of-a-reused-chart-is-not-the-escaped-document' % kind, None)
        quiet = lambda *args: None
        b = analyse(o, quiet)
        for k in a:
            if a.get(k) != b.get(k):
                res.v('C19:%s-structure-depends-on-task-names' % k, dict(with_names=a.get(k), with_x=b.get(k), names=names))
                break
    m = o.m
    special = any(ch in n for n in names for ch in '"{}<>$:')
    secs = {(t.get('custom') or {}).get('gantt_section', '-') for t in case['spec']['tasks']}
    res.label('special-names' if special else 'tame-names', 'sections:%d' % min(len(secs), 3),
              'links' if case['spec']['links'] else 'no-links')
    for tok in ('</script>', '</div>', '}}', '-->', '<!--', '$'):
        if any(tok in n for n in names):
            res.label('token:' + tok)
    res.nontrivial = special and bool(case['spec']['links']) and (len(secs) >= 2 or any(t['milestone'] for t in case['spec']['tasks']))
    res.sample = dict(names=names, links=case['spec']['links'], sections=sorted(secs))
    return res


def streams(tier):
    n = 7 if tier == 'quick' else 10
    return [Stream('documents', check, strategy=lambda: viz_case(max_tasks=n), examples={'quick': 2400, 'thorough': 40000})]
