"""C20 — printed sheets list each visible task once, indented by depth, columns aligned."""
import contextlib
import io
import re
from datetime import timedelta

from hypothesis import strategies as st

from .. import env, sched, specs
from ..collect import Result
from ..env import dt
from ..runner import Stream
from ..specs import Model

ID = 'C20'
RULE = ('Generated WBS specs (names of 0-60 characters incl. None, custom string attributes, links inside the WBS and to tasks '
        'outside it in both directions) x receivers (WBS, Task, roots list, children list, query result; repr() and print()) x '
        'field lists drawn from known fields, parent, successors, custom names, upper-case variants and unknown names x '
        'children on/off x themes with 0-8 level colours.  Oracle on the ANSI-stripped text: line count == 1 + number of shown '
        'tasks (whole subtrees in depth-first order when children are shown, only the given tasks otherwise); all lines '
        'equally wide; column offsets located from the header cells; in every row the character before each column offset '
        'is a blank and the cells the statement fixes (id; name = 3 blanks per level + name; string custom attributes; parent '
        '/ predecessors / successors = linked ids in list order with "external" on exactly the links that leave the task\'s '
        'WBS) start at the offset, are complete and followed only by blanks.  Usage table of forward/backward schedules: '
        'header + one line per calendar day from the first to the last reservation, equal width; "Empty" without rows.  '
        'Non-trivial = depth >= 2 with a value longer than its header, and >= 1 unknown field or >= 1 external link; distinct = '
        'distinct case.')
ASSUMPTIONS = ['cells whose formatting the statement leaves open (dates, numbers, None markers, unknown / upper-case fields) are only '
               'subject to the alignment and width tests', 'values contain no ESC and no line breaks']

ANSI = re.compile(r'\x1b\[[0-9;:]*m')
FIELDS = ['id', 'name', 'resource', 'estimate', 'spent', 'start', 'end', 'predecessors', 'successors', 'parent', 'milestone',
          'tag', 'note', 'NAME', 'Id', 'bogus', 'zzz_unknown', 'min_start',
          # names of Task members that are not data attributes: unknown fields as far as a sheet is concerned
          'children', 'all_children', 'all_parents', 'wbs', 'clone', 'to_dict', 'print',
          # names whose upper-case form has another length
          'ß', 'straße', 'ﬁeld', 'größe']
COLORS = ['91m', '92m', '93m', '94m', '95m', '96m', '97m', '37m']
THEME_COLORS = COLORS + [None, '']          # None / '' mean "no colour" (pjplan.utils.colored_text)
long_text = st.text(alphabet=st.sampled_from(list('abcXYZ 0123456789_-.,;:|[]()äж中')), min_size=0, max_size=60)
# texts with line breaks (the CSV layer stores and returns them): a sheet still has one line per task
MULTILINE = ['Summary\ndetails', 'a\r\nb', 'tail\n', '\nhead', 'one\n\nthree', 'cr\rcr']
name_st = st.one_of(st.none(), long_text, long_text, st.sampled_from(['T', 'Design', 'a b', '   lead', 'trail   ']), st.sampled_from(MULTILINE))


@st.composite
def sheet_case(draw, max_tasks=8):
    spec = draw(specs.wbs_spec(max_tasks=max_tasks, min_tasks=1, names=name_st))
    for t in spec['tasks']:
        cu = {}
        if draw(st.booleans()):
            cu['tag'] = draw(long_text)
        if draw(st.integers(0, 5)) == 0:
            cu['größe'] = draw(st.sampled_from(['XL', 'a longer size text']))
        if draw(st.integers(0, 3)) == 0:
            cu['note'] = draw(st.sampled_from(['n', 'a much longer note than its header', '', 'line 1\nline 2']))
        if draw(st.integers(0, 5)) == 0:
            cu['print_color'] = draw(st.sampled_from(COLORS + [None, '']))
        if draw(st.integers(0, 3)) == 0:
            t['start'] = specs.iso(specs.BASE + timedelta(days=draw(st.integers(0, 30)), hours=draw(st.integers(0, 23))))
        t['custom'] = cu
    m = Model(spec)
    ext = []
    for k in range(draw(st.integers(0, 2))):
        ext.append(dict(id=draw(st.sampled_from([100 + k, m.order[0]])), start='2026-01-01T00:00:00', end='2026-01-02T00:00:00',
                        succ=[draw(st.sampled_from(m.order))], xpred=[draw(st.sampled_from(m.order))] if draw(st.booleans()) else []))
    spec['ext'] = ext
    fields = draw(st.one_of(st.none(), st.lists(st.sampled_from(FIELDS), min_size=1, max_size=7)))
    theme = draw(st.one_of(st.none(), st.fixed_dictionaries({'level_colors': st.lists(st.sampled_from(THEME_COLORS), max_size=8)}),
                           st.fixed_dictionaries({'level_colors': st.lists(st.sampled_from(THEME_COLORS), max_size=8), 'header_color': st.sampled_from(THEME_COLORS)})))
    recv = draw(st.sampled_from(['wbs', 'wbs-repr', 'task', 'task-repr', 'roots', 'children', 'query', 'tasks-list', 'all_children', 'predecessors', 'roots-repr']))
    of = draw(st.integers(0, 30))
    if draw(st.integers(0, 4)) == 0:
        # steer: a dependency list that spans several projects, printed with its link columns
        recv = draw(st.sampled_from(['predecessors', 'successors', 'all_predecessors', 'all_successors']))
        pick = m.order[of % len(m.order)]
        other = [i for i in m.order if i != pick]
        ext = [dict(id=100 + k, start='2026-01-01T00:00:00', end='2026-01-02T00:00:00', in_wbs=draw(st.booleans()),
                    succ=[pick] if recv.endswith('predecessors') else [], xsucc_of=[pick] if recv.endswith('successors') else [],
                    xpred=[draw(st.sampled_from(other))] if other and draw(st.booleans()) else []) for k in range(2)]
        spec['ext'] = ext
        fields = ['id', 'predecessors', 'successors'] + (draw(st.lists(st.sampled_from(FIELDS), max_size=2)))
    return dict(spec=spec, recv=recv,
                of=of, fields=fields, children=draw(st.booleans()), theme=theme,
                fields_form=draw(st.sampled_from(['list', 'list', 'tuple', 'iterator', 'generator'])))


def linked_expect(task, others):
    out = []
    for x in others:
        out.append((str(x.id), x.wbs is not task.wbs))
    return out


def parse_links(cell):
    """'[1,2(external)]' or '1(external)' -> [(id, external?)]"""
    inner = cell.strip()
    if inner.startswith('[') and inner.endswith(']'):
        inner = inner[1:-1]
    if inner == '':
        return []
    out = []
    for item in inner.split(','):
        m = re.match(r'^\s*(-?\w+)(.*)$', item)
        if not m:
            return None
        out.append((m.group(1), 'external' in m.group(2)))
    return out


def check(case, exclude=True):
    res = Result()
    spec = case['spec']
    m = Model(spec)
    w, objs, ext = specs.build(spec)
    for e in spec.get('ext', []):
        for v_ in e.get('xpred', []):
            try:
                ext[e['id']].predecessors.append(objs[v_])
            except RuntimeError:
                pass
        for v_ in e.get('xsucc_of', []):
            try:
                objs[v_].successors.append(ext[e['id']])
            except RuntimeError:
                pass
    recv = case['recv']
    summaries = [i for i in m.order if not m.is_leaf(i)]
    pick = m.order[case['of'] % len(m.order)]
    fields, children, theme = case['fields'], case['children'], case['theme']
    is_repr = recv.endswith('-repr')
    if recv in ('wbs', 'wbs-repr'):
        target, given = w, [objs[i] for i in m.roots]
    elif recv in ('task', 'task-repr'):
        target, given = objs[pick], [objs[pick]]
    elif recv == 'roots':
        target, given = w.roots, [objs[i] for i in m.roots]
    elif recv == 'children':
        owner = summaries[case['of'] % len(summaries)] if summaries else None
        if owner is None:
            target, given = w.roots, [objs[i] for i in m.roots]
        else:
            target, given = objs[owner].children, [objs[i] for i in m.children[owner]]
    elif recv == 'all_children':
        target, given = objs[pick].all_children, list(objs[pick].all_children)
    elif recv == 'predecessors':
        target, given = objs[pick].predecessors, list(objs[pick].predecessors)
    elif recv in ('successors', 'all_predecessors', 'all_successors'):
        target = getattr(objs[pick], recv)
        given = list(target)
    elif recv == 'roots-repr':
        target, given = w.roots, [objs[i] for i in m.roots]
    elif recv == 'query':
        target = w.tasks(lambda t: t.id % 2 == 1)
        given = [objs[i] for i in m.dfs() if i % 2 == 1]
    else:
        target, given = w.tasks, [objs[i] for i in m.dfs()]
    try:
        if is_repr:
            text = repr(target)
            fields_eff, children_eff = ['id', 'name', 'resource', 'estimate', 'spent', 'start', 'end', 'predecessors'], True
        else:
            buf = io.StringIO()
            with contextlib.redirect_stdout(buf):
                ff = case.get('fields_form') or 'list'
                # `fields` is documented as an iterable of names: a tuple or a one-shot iterator is as good as a list
                farg = fields if fields is None or ff == 'list' else tuple(fields) if ff == 'tuple' else iter(list(fields)) if ff == 'iterator' else (f for f in list(fields))
                target.print(farg, children, theme)
            text = buf.getvalue()
            if text.endswith('\n'):
                text = text[:-1]
            fields_eff = fields if fields is not None else ['id', 'name', 'resource', 'estimate', 'spent', 'start', 'end', 'predecessors']
            children_eff = children
    except Exception as e:
        res.v('C20:printing-raises-%s' % type(e).__name__, dict(error=repr(e)[:200], fields=fields, receiver=recv))
        return res
    plain = ANSI.sub('', text)
    if '\x1b' in plain:
        res.v('C20:stray-escape-sequence', None)
    lines = plain.split('\n')
    # ---- shown tasks
    shown = []

    def walk(t, level):
        shown.append((t, level))
        if children_eff:
            for c in t.children:
                walk(c, level + 1)
    for t in given:
        walk(t, 0)
    if len(lines) != 1 + len(shown):
        res.v('C20:line-count-is-not-header-plus-shown-tasks(%s)' % ('children-shown' if children_eff else 'children-hidden'),
              dict(lines=len(lines), expected=1 + len(shown), receiver=recv))
        return res
    widths = {len(l) for l in lines}
    if len(widths) != 1:
        res.v('C20:lines-have-different-widths', dict(widths=sorted(widths), fields=fields_eff))
        return res
    # ---- column offsets from the header
    header = lines[0]
    offs = []
    pos = 0
    for f in fields_eff:
        k = header.find(f.upper(), pos)
        if k < 0:
            res.v('C20:header-cell-missing', dict(field=f, header=header))
            return res
        offs.append(k)
        pos = k + len(f.upper())
    offs.append(len(header) + 1)
    longer = False
    for (t, level), line in zip(shown, lines[1:]):
        for ci, f in enumerate(fields_eff):
            a, b = offs[ci], offs[ci + 1] - 1
            if a > 0 and line[a - 1] != ' ':
                res.v('C20:cell-overflows-into-the-next-column', dict(field=fields_eff[ci - 1] if ci else f, line=line, header=header))
                return res
            seg = line[a:b] if ci + 1 < len(fields_eff) else line[a:]
            exp = None
            if f == 'id':
                exp = str(t.id)
            elif f == 'name':
                exp = '   ' * level + (t.name if t.name is not None else '')
            elif f in ('tag', 'note', 'größe') and isinstance(t.__dict__.get(f), str):
                exp = t.__dict__[f]
            if exp is not None and ('\n' in exp or '\r' in exp):
                # how a line break inside a value is shown is left open; only the structure (one line per task, equal
                # widths, columns not overflowing) is judged for such cells - but the indentation of a name still is
                if f == 'name' and not seg.startswith('   ' * level):
                    res.v('C20:cell-text-wrong(name-indentation)', dict(field=f, cell=seg, line=line))
                    return res
                exp = None
            if exp is not None:
                if len(exp) > len(f):
                    longer = True
                if not (seg.startswith(exp) and seg[len(exp):].strip() == ''):
                    res.v('C20:cell-text-wrong(%s)' % ('name-indentation' if f == 'name' else f), dict(field=f, expected=exp, cell=seg, line=line))
                    return res
            if f in ('predecessors', 'successors', 'parent'):
                rel = list(getattr(t, f)) if f != 'parent' else ([t.parent] if t.parent is not None else [])
                want = linked_expect(t, rel)
                got = parse_links(seg)
                if got != want:
                    res.v('C20:link-cell-wrong(%s%s)' % (f, ',external' if any(e for _, e in want) else ''), dict(expected=want, cell=seg))
                    return res
    unknown = any(f in ('bogus', 'zzz_unknown', 'children', 'all_children', 'all_parents', 'wbs', 'clone', 'to_dict', 'print') for f in fields_eff)
    ext_link = any(x.wbs is not t.wbs for t, _ in shown for x in list(t.predecessors) + list(t.successors)) and \
        any(f in ('predecessors', 'successors') for f in fields_eff)
    depth = max(l for _, l in shown) if shown else 0
    res.label('recv:' + recv, 'children-shown' if children_eff else 'children-hidden', 'depth:%d' % min(depth, 3),
              'unknown-field' if unknown else 'known-fields', 'external-link-shown' if ext_link else 'no-external',
              'theme' if theme else 'default-theme')
    res.nontrivial = depth >= 2 and longer and (unknown or ext_link)
    res.sample = dict(receiver=recv, fields=fields_eff, children=children_eff, text=plain[:600])
    return res


# ------------------------------------------------------------------------------ usage table

def check_usage(case, exclude=True):
    res = Result()
    o = sched.run(case)
    if o.error is not None:
        res.label('not-scheduled')
        return res
    try:
        text = repr(o.result.resource_usage)
    except Exception as e:
        res.v('C20:usage-table-raises-%s' % type(e).__name__, dict(error=repr(e)[:200]))
        return res
    plain = ANSI.sub('', text)
    if not o.rows:
        if plain.strip() != 'Empty':
            res.v('C20:usage-table-of-empty-report-is-not-Empty', dict(text=plain[:100]))
        res.label('empty-report')
        return res
    lines = plain.split('\n')
    ds = [d for _, d, _, _ in o.rows]
    days = (max(ds) - min(ds)).days + 1
    if len(lines) != 1 + days:
        res.v('C20:usage-table-line-count-is-not-header-plus-days', dict(lines=len(lines), days=days))
    elif len({len(l) for l in lines}) != 1:
        res.v('C20:usage-table-lines-have-different-widths', dict(widths=sorted({len(l) for l in lines})))
    else:
        d = min(ds)
        for l in lines[1:]:
            if d.strftime('%y-%m-%d') not in l:
                res.v('C20:usage-table-day-line-missing-or-out-of-order', dict(day=d, line=l))
                break
            d += timedelta(days=1)
    res.label('usage-days:%s' % ('1' if days == 1 else '2-7' if days <= 7 else '8+'))
    res.nontrivial = days >= 3 and len(o.res_by_name) >= 2
    res.sample = dict(days=days, text=plain[:400])
    return res


def streams(tier):
    n = 8 if tier == 'quick' else 12
    return [Stream('sheets', check, strategy=lambda: sheet_case(max_tasks=n), examples={'quick': 5000, 'thorough': 80000}),
            Stream('usage-table', check_usage, strategy=lambda: sched.any_case(max_tasks=6), examples={'quick': 1200, 'thorough': 15000})]
