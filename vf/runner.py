"""Generic driver: replay tier, sharded generation, collect-then-shrink, known findings,
evidence, exit code.  Usage: python -m vf.runner <ID> [--tier quick|thorough] [--replay file]
"""
import glob
import hashlib
import importlib
import json
import multiprocessing as mp
import os
import sys
import time
import traceback

from . import env
from .collect import Collector, Result
from .env import HarnessError, VERIF_DIR, jdump, jcanon

KF_PATH = os.path.join(VERIF_DIR, 'known_findings.json')


class Stream:
    """One generated stream of cases for a property.

    strategy    zero-argument callable returning a Hypothesis strategy of JSON-able cases
    check       check(case, exclude=True) -> Result
    examples    {'quick': n, 'thorough': n}
    exhaustive  optional callable(tier) -> iterable of cases (complete enumeration of a finite scope)
    """

    def __init__(self, name, check, strategy=None, examples=None, exhaustive=None):
        self.name = name
        self.check = check
        self.strategy = strategy
        self.examples = examples or {}
        self.exhaustive = exhaustive


# --------------------------------------------------------------------------- known findings

def load_known(prop):
    if not os.path.exists(KF_PATH):
        return []
    with open(KF_PATH) as f:
        data = json.load(f)
    return [e for e in data.get('findings', []) if e.get('property') == prop]


_OPEN = None


def open_findings():
    """ids of known findings with status open (all properties); used by exclusion predicates"""
    global _OPEN
    if _OPEN is None:
        _OPEN = set()
        if os.path.exists(KF_PATH):
            with open(KF_PATH) as f:
                for e in json.load(f).get('findings', []):
                    if e.get('status') == 'open':
                        _OPEN.add(e['id'])
    return _OPEN


def is_open(fid):
    return fid in open_findings()


# --------------------------------------------------------------------------- hypothesis plumbing

def _settings(n, phases):
    from hypothesis import settings, HealthCheck
    return settings(max_examples=n, deadline=None, database=None, derandomize=False,
                    phases=phases, report_multiple_bugs=False, print_blob=False,
                    suppress_health_check=[HealthCheck.too_slow, HealthCheck.data_too_large,
                                           HealthCheck.large_base_example])


def _run_generated(stream, n, sd, coll):
    from hypothesis import given, seed, Phase
    strat = stream.strategy()

    @seed(sd)
    @_settings(n, [Phase.generate])
    @given(strat)
    def t(case):
        coll.add(case, guarded(stream.check, case), stream.name, sd, n)

    t()


def guarded(check, case, **kw):
    """Run a check.  An exception that escapes from pjplan itself (innermost frame inside the package) on an input the
    check considers valid is a finding - the call the property speaks about crashed; an exception raised by the
    harness' own code stays a harness error (exit 2)."""
    import traceback
    try:
        return check(case, **kw)
    except Exception as e:
        tb = traceback.extract_tb(e.__traceback__)
        inner = tb[-1].filename if tb else ''
        lib = os.path.join(os.path.realpath(env.REPO), 'src', 'pjplan') + os.sep
        if os.path.realpath(inner).startswith(lib):
            res = Result()
            where = os.path.realpath(inner)[len(lib):] + ':' + tb[-1].name
            res.v('%s:pjplan-call-crashes-with-%s:%s' % (PROP_ID[0], type(e).__name__, where), dict(error=repr(e)[:300]))
            res.sample = case
            return res
        raise


PROP_ID = ['C??']


class _Found(Exception):
    pass


def _shrink(stream, sig, sd, n, cap_s):
    """Re-find `sig` with the shard's seed and let Hypothesis shrink it."""
    from hypothesis import given, seed, Phase
    import hypothesis.internal.conjecture.engine as eng
    old = getattr(eng, 'MAX_SHRINKING_SECONDS', None)
    try:
        eng.MAX_SHRINKING_SECONDS = cap_s
    except Exception:
        pass
    best = {}
    strat = stream.strategy()

    @seed(sd)
    @_settings(n, [Phase.generate, Phase.shrink])
    @given(strat)
    def t(case):
        r = guarded(stream.check, case)
        for s, d in r.viol:
            if s == sig:
                size = len(jcanon(case))
                if 'size' not in best or size <= best['size']:
                    best.update(case=case, detail=d, size=size)
                raise _Found()

    try:
        t()
    except _Found:
        pass
    except Exception:
        pass
    finally:
        if old is not None:
            eng.MAX_SHRINKING_SECONDS = old
    return best


def _shard(args):
    modname, tier, seed_base, k, nproc = args
    try:
        env.import_pjplan()
        mod = importlib.import_module(modname)
        PROP_ID[0] = mod.ID
        coll = Collector()
        for si, stream in enumerate(mod.streams(tier)):
            if stream.exhaustive is not None:
                for i, case in enumerate(stream.exhaustive(tier)):
                    if i % nproc == k:
                        coll.add(case, guarded(stream.check, case), stream.name, None, None)
            if stream.strategy is not None:
                total = stream.examples.get(tier, 0)
                n = (total + nproc - 1) // nproc
                if n > 0:
                    sd = seed_base * 1000 + si * 100 + k
                    _run_generated(stream, n, sd, coll)
        return ('ok', coll)
    except Exception:
        return ('err', traceback.format_exc())


def _shrink_job(args):
    modname, tier, sig, stream_name, sd, n, cap = args
    try:
        env.import_pjplan()
        mod = importlib.import_module(modname)
        PROP_ID[0] = mod.ID
        stream = [s for s in mod.streams(tier) if s.name == stream_name][0]
        return (sig, _shrink(stream, sig, sd, n, cap))
    except Exception:
        return (sig, {'error': traceback.format_exc()})


# --------------------------------------------------------------------------- main

def _stream_by_name(mod, tier, name):
    ss = mod.streams(tier)
    for s in ss:
        if s.name == name:
            return s
    return ss[0]


def replay_file(mod, tier, path):
    with open(path) as f:
        rec = json.load(f)
    stream = _stream_by_name(mod, tier, rec.get('stream'))
    PROP_ID[0] = mod.ID
    res = guarded(stream.check, rec['case'], exclude=False)
    return rec, res


def run_fuzz(prop, plan, nproc):
    """plan: [(stream name, runs per process)].  nproc libFuzzer processes per stream, seeds SEED*100+k."""
    import shutil
    import subprocess
    import tempfile
    tmp = tempfile.mkdtemp(prefix='vf-fuzz-')
    info = dict(engine='atheris/libFuzzer via hypothesis fuzz_one_input', streams={}, executions=0, nontrivial=0, errors=[])
    viol = {}
    try:
        for stream, runs in plan:
            procs = []
            for k in range(nproc):
                sd = env.SEED * 100 + k + 1
                cmd = [sys.executable, '-m', 'vf.fuzz', prop, stream, '--runs', str(runs), '--seed', str(sd), '--out', tmp]
                e = dict(os.environ)
                e['PYTHONPATH'] = os.path.join(VERIF_DIR, '.deps') + os.pathsep + VERIF_DIR + (os.pathsep + e['PYTHONPATH'] if e.get('PYTHONPATH') else '')
                procs.append((sd, subprocess.Popen(cmd, cwd=VERIF_DIR, env=e, stdout=subprocess.DEVNULL, stderr=subprocess.DEVNULL)))
            ex = 0
            for sd, pr in procs:
                pr.wait()
                rp = os.path.join(tmp, 'result-%d.json' % sd)
                if not os.path.exists(rp):
                    info['errors'].append('no result from seed %d' % sd)
                    continue
                with open(rp) as f:
                    r = json.load(f)
                if r.get('error'):
                    info['errors'].append(r['error'])
                ex += r.get('executions', 0)
                info['nontrivial'] += r.get('nontrivial', 0)
                for sig, v in r.get('violations', {}).items():
                    m = viol.get(sig)
                    if m is None or v['size'] < m['size']:
                        viol[sig] = dict(v, stream=stream, count=v['count'] + (m['count'] if m else 0))
                    else:
                        m['count'] += v['count']
                os.remove(rp)
            info['streams'][stream] = dict(processes=nproc, runs_per_process=runs, executions=ex)
            info['executions'] += ex
    finally:
        shutil.rmtree(tmp, ignore_errors=True)
    info['errors'] = sorted(set(info['errors']))[:5]
    info['_violations'] = viol
    return info


def main(argv=None):
    argv = list(sys.argv[1:] if argv is None else argv)
    if not argv:
        print('usage: check <ID> [--tier quick|thorough] [--replay file]')
        return 2
    prop = argv[0]
    tier = os.environ.get('VERIF_TIER') or 'quick'
    replay = None
    i = 1
    while i < len(argv):
        if argv[i] == '--tier':
            tier = argv[i + 1]; i += 2
        elif argv[i] == '--replay':
            replay = argv[i + 1]; i += 2
        else:
            print('unknown argument', argv[i]); return 2
    if tier not in ('quick', 'thorough'):
        tier = 'quick'
    t0 = time.time()
    try:
        env.import_pjplan()
        modname = 'vf.props.%s' % prop.lower()
        mod = importlib.import_module(modname)
    except Exception:
        traceback.print_exc()
        print('HARNESS-ERROR property=%s cannot set up' % prop)
        return 2

    # ---- single replay
    if replay is not None:
        try:
            rec, res = replay_file(mod, tier, replay)
        except Exception:
            traceback.print_exc()
            return 2
        if res.viol:
            for s, d in res.viol:
                print('  violated: %s  %s' % (s, json.dumps(d, default=env.jdefault)[:600]))
            print('VIOLATION property=%s replay=%s' % (prop, replay))
            return 1
        print('replay %s: property held' % replay)
        return 0

    known = load_known(prop)
    open_by_replay = {}
    for e in known:
        if e.get('status') == 'open':
            for r in e.get('replays', []):
                open_by_replay[os.path.normpath(os.path.join(VERIF_DIR, r))] = e
    violations = []       # (sig, path)
    kf_report = {}
    stale = []
    replayed = 0
    # ---- regression / known-finding replays
    try:
        for path in sorted(glob.glob(os.path.join(VERIF_DIR, 'replay', prop, '*.json'))):
            rec, res = replay_file(mod, tier, path)
            replayed += 1
            e = open_by_replay.get(os.path.normpath(path))
            if e is not None:
                if res.viol:
                    kf_report.setdefault(e['id'], e)
                else:
                    stale.append(e['id'] + ':' + os.path.basename(path))
            elif res.viol:
                violations.append((res.viol[0][0], path))
    except Exception:
        traceback.print_exc()
        print('HARNESS-ERROR property=%s replay tier failed' % prop)
        return 2
    for fid, e in sorted(kf_report.items()):
        print('KNOWN-FINDING: property=%s %s %s' % (prop, fid, e['what']))
    for e in known:
        if e.get('status') == 'fixed':
            print('fixed: property=%s %s %s' % (prop, e.get('commit', '?'), e['what']))

    # ---- generation, 16 shards
    nproc = env.NPROC
    ctx = mp.get_context('fork')
    jobs = [(modname, tier, env.SEED, k, nproc) for k in range(nproc)]
    total = Collector()
    with ctx.Pool(nproc) as pool:
        for status, payload in pool.imap_unordered(_shard, jobs):
            if status != 'ok':
                print(payload)
                print('HARNESS-ERROR property=%s a shard failed' % prop)
                return 2
            total.merge(payload)

        # ---- shrink each new signature (bounded), write replay, report
        new = sorted(total.viol.items(), key=lambda kv: (-kv[1]['count'], kv[0]))
        cap = 20 if tier == 'quick' else 120
        max_shrunk = 6 if tier == 'quick' else 12
        sj = []
        for sig, e in new[:max_shrunk]:
            if e['shard_seed'] is not None:
                sj.append((modname, tier, sig, e['stream'], e['shard_seed'], e['n'], cap))
        shrunk = dict(pool.imap_unordered(_shrink_job, sj)) if sj else {}
    for sig, e in new:
        case, detail = e['case'], e['detail']
        b = shrunk.get(sig) or {}
        if b.get('case') is not None and b.get('size', 1 << 60) <= e['size']:
            case, detail = b['case'], b['detail']
        h = hashlib.sha1(sig.encode()).hexdigest()[:10]
        path = os.path.join(os.environ.get('VERIF_FOUND_DIR') or os.path.join(VERIF_DIR, 'found'), prop, '%s.json' % h)
        jdump(dict(property=prop, signature=sig, stream=e['stream'], count=e['count'],
                   seed=env.SEED, tier=tier, detail=detail, case=case), path)
        violations.append((sig, path))

    # ---- coverage-guided sub-run (thorough tier only; never required)
    fuzz_info = None
    if tier == 'thorough' and getattr(mod, 'FUZZ', None) and not os.environ.get('VERIF_NO_FUZZ'):
        fuzz_info = run_fuzz(prop, mod.FUZZ, nproc)
        for sig, e in sorted(fuzz_info.pop('_violations').items()):
            h = hashlib.sha1(('fuzz' + sig).encode()).hexdigest()[:10]
            path = os.path.join(os.environ.get('VERIF_FOUND_DIR') or os.path.join(VERIF_DIR, 'found'), prop, 'fuzz-%s.json' % h)
            jdump(dict(property=prop, signature=sig, stream=e['stream'], count=e['count'], seed=env.SEED, tier=tier,
                       origin='atheris', detail=e['detail'], case=e['case']), path)
            violations.append((sig, path))

    wall = time.time() - t0
    cov = dict(
        evaluations=total.evaluations,
        executed=total.executed,
        distinct_nontrivial=len(total.nt_hashes),
        rule=mod.RULE,
        samples=total.samples[:5],
        labels=dict(sorted(total.labels.items())),
        streams=dict(total.streams),
        excluded_by_known_finding=dict(total.excluded),
        replays_executed=replayed,
        known_findings_reproduced=sorted(kf_report),
        stale_known_findings=stale,
        exhaustive=bool(getattr(mod, 'EXHAUSTIVE_ONLY', False)),
        violation_signatures={s: e['count'] for s, e in total.viol.items()},
        shards=nproc,
    )
    if total.steps:
        cov['steps'] = total.steps
    if fuzz_info is not None:
        cov['atheris'] = fuzz_info
    extra = getattr(mod, 'evidence_extra', None)
    if extra:
        cov.update(extra(tier))
    ev = dict(property_id=prop, tier=tier, seed=env.SEED, level=getattr(mod, 'LEVEL', 'exploration'),
              coverage=cov, assumptions=list(getattr(mod, 'ASSUMPTIONS', [])),
              wall_s=round(wall, 2), violations=len(violations))
    jdump(ev, os.path.join(os.environ.get('VERIF_EVIDENCE_DIR') or os.path.join(VERIF_DIR, 'evidence'), '%s.json' % prop))
    print('%s tier=%s seed=%d evaluations=%d executed=%d nontrivial=%d steps=%d wall=%.1fs' % (
        prop, tier, env.SEED, total.evaluations, total.executed, len(total.nt_hashes), total.steps, wall))
    if total.excluded:
        print('  excluded by known findings: %s' % dict(total.excluded))
    if violations:
        for sig, path in violations:
            print('  signature: %s' % sig)
            print('VIOLATION property=%s replay=%s' % (prop, path))
        return 1
    return 0


if __name__ == '__main__':
    try:
        rc = main()
    except HarnessError as e:
        print('HARNESS-ERROR', e)
        rc = 2
    except Exception:
        traceback.print_exc()
        rc = 2
    sys.exit(rc)
