"""Scheduling cases: strategies, execution under a controlled clock, and the oracles of
C02, C03, C04, C07, C08, C09 (C06 and C14 add their own drivers on top of run()).
All oracles are stated over the leaf-expansion model (vf.specs.Model), the usage rows and the
returned dates; none re-implements the scheduler.
"""
import collections
from datetime import datetime, timedelta
from fractions import Fraction as F

from hypothesis import strategies as st

from . import env, specs
from .env import dt, plain
from .specs import BASE, DAY, Model, day, iso

TOL = timedelta(milliseconds=1)
EPS = F(1, 10 ** 9)


# how the caller hands over `resources=` (the code takes any iterable of resources and reads it once)
RES_FORMS = ['list', 'list', 'list', 'tuple', 'generator', 'iterator', 'dict-values']


# ------------------------------------------------------------------------------ strategies

@st.composite
def fwd_case(draw, max_tasks=8, fixed=True, late_clock=True, balance=None, taskdep=False, end_only=False, **kw):
    kw.setdefault('summary_milestones', True)
    spec = draw(specs.wbs_spec(max_tasks=max_tasks, **kw))
    m = Model(spec)
    rs = draw(specs.resources_spec())
    specs.clamp_work(spec, rs)
    P = BASE + timedelta(days=draw(st.integers(0, 6)), hours=draw(st.sampled_from([0, 0, 0, 10, 23])),
                         minutes=draw(st.sampled_from([0, 0, 30])))
    modes = ['early', 'early', 'equal'] + (['late'] if late_clock else [])
    nm = draw(st.sampled_from(modes))
    if nm == 'early':
        N = P - timedelta(days=draw(st.integers(1, 400)), hours=5)
    elif nm == 'equal':
        N = P
    else:
        N = P + timedelta(days=draw(st.integers(0, 5)), hours=draw(st.integers(1, 23)))
    if fixed:
        for t in spec['tasks']:
            if m.is_leaf(t['id']) and not t['milestone']:
                k = draw(st.integers(0, 9))
                if k == 0:      # completed
                    e = N - timedelta(days=draw(st.integers(0, 30)), hours=draw(st.integers(0, 5)))
                    t['end'] = iso(e)
                    t['start'] = iso(e - timedelta(days=draw(st.integers(0, 10))))
                elif k == 1:    # started: fixed start at a midnight, end open
                    t['start'] = iso(day(P) + timedelta(days=draw(st.integers(-10, 10))))
                elif k == 2 and end_only:   # an end recorded without a start (only where start <= end is not judged, see F12)
                    t['end'] = iso(N - timedelta(days=draw(st.integers(0, 30)), hours=draw(st.integers(0, 5))))
    for t in spec['tasks']:
        # the user may have put dates on summary tasks (they are replaced by roll-ups); an end in the future would be refused
        if not m.is_leaf(t['id']) and draw(st.integers(0, 4)) == 0:
            e = N - timedelta(days=draw(st.integers(0, 40)), hours=draw(st.integers(0, 9)))
            t['end'] = iso(e)
            t['start'] = iso(e - timedelta(days=draw(st.integers(0, 20)))) if draw(st.booleans()) else None
    sd = nm == 'equal' and draw(st.booleans())
    if m.order and draw(st.integers(0, 5)) == 0:
        # dated predecessors outside the WBS (some with the id of a member)
        ext = []
        detours = []
        for k in range(draw(st.integers(1, 2))):
            e0 = P + timedelta(days=draw(st.integers(-20, 6)), hours=draw(st.sampled_from([0, 0, 15])))
            ext.append(dict(id=draw(st.sampled_from([100 + k, draw(st.sampled_from(m.order))])), start=iso(e0 - timedelta(days=2)), end=iso(e0),
                            succ=[draw(st.sampled_from(m.order))], in_wbs=draw(st.booleans())))
            e = ext[-1]
            if draw(st.integers(0, 2)) == 0:
                # the outside task waits for a member itself (member -> outside -> member), provided the detour closes no circle
                a = draw(st.sampled_from(m.order))
                b = e['succ'][0]
                if a != b and a not in m.ancestors(b) and b not in m.ancestors(a) and \
                        Model(dict(spec, links=spec['links'] + detours + [[a, b]])).leaf_acyclic():
                    e['pred'] = [a]
                    detours.append([a, b])
            e['ext_pred'] = draw(st.integers(0, 3)) == 0
            e['milestone'] = draw(st.integers(0, 4)) == 0
        spec['ext'] = ext
    if draw(st.integers(0, 5)) == 0:
        spec['subclass'] = True
    return dict(dir='fwd', spec=spec, res=rs, P=iso(P), N=iso(N), start_default=sd, balance=draw(st.booleans()) if balance is None else balance,
                dflt=draw(st.sampled_from([0, 0, 4])), reuse=draw(st.integers(0, 2)) == 0, wrap=draw(st.sampled_from([0, 0, 0, 1, 2 if taskdep else 1] + ([3] if taskdep == 'share' else []))),
                res_form=draw(st.sampled_from(RES_FORMS)), balance_int=draw(st.integers(0, 3)) == 0)


@st.composite
def bwd_case(draw, max_tasks=8, balance=None, taskdep=False, **kw):
    kw.setdefault('min_start', False)
    kw.setdefault('summary_milestones', True)
    spec = draw(specs.wbs_spec(max_tasks=max_tasks, **kw))
    rs = draw(specs.resources_spec(backward=True))
    specs.clamp_work(spec, rs, factor=30)
    mm = Model(spec)
    for t in spec['tasks']:
        if not mm.is_leaf(t['id']) and draw(st.integers(0, 4)) == 0:
            e = BASE + timedelta(days=draw(st.integers(-40, 60)), hours=draw(st.integers(0, 9)))
            t['end'] = iso(e)
            t['start'] = iso(e - timedelta(days=draw(st.integers(0, 20)))) if draw(st.booleans()) else None
    E = BASE + timedelta(days=draw(st.integers(30, 40)), hours=draw(st.sampled_from([0, 0, 0, 10, 23])),
                         minutes=draw(st.sampled_from([0, 0, 30])))
    if draw(st.integers(0, 5)) == 0:
        spec['subclass'] = True
    return dict(dir='bwd', spec=spec, res=rs, P=iso(E), N=iso(datetime(2020, 1, 1)), balance=draw(st.booleans()) if balance is None else balance,
                dflt=draw(st.sampled_from([0, 0, 4])), reuse=draw(st.integers(0, 2)) == 0, wrap=draw(st.sampled_from([0, 0, 0, 1, 2 if taskdep else 1] + ([3] if taskdep == 'share' else []))),
                res_form=draw(st.sampled_from(RES_FORMS)), balance_int=draw(st.integers(0, 3)) == 0)


def any_case(max_tasks=8, **kw):
    return st.one_of(fwd_case(max_tasks=max_tasks, **kw), bwd_case(max_tasks=max_tasks, **kw))


# ------------------------------------------------------------------------------ execution

class Out:
    """Everything the oracles need from one calc() call."""
    pass


def make_scheduler(case, resources):
    env.set_clock(dt(case['N']))
    from pjplan import ForwardScheduler, BackwardScheduler
    form = case.get('res_form') or 'list'
    if resources is not None and form != 'list':
        resources = tuple(resources) if form == 'tuple' else (r for r in list(resources)) if form == 'generator' else \
            iter(list(resources)) if form == 'iterator' else {k: r for k, r in enumerate(resources)}.values()
    # the flag is a truth value: 0 / 1 are as good as False / True
    bal = int(case['balance']) if case.get('balance_int') else case['balance']
    if case['dir'] == 'fwd':
        # start_default: the scheduler is built without a start and takes the clock (P == N in such cases)
        return ForwardScheduler(start=None if case.get('start_default') else dt(case['P']), resources=resources, balance_resources=bal,
                                default_estimate=case['dflt'])
    return BackwardScheduler(end=dt(case['P']), resources=resources, balance_resources=bal,
                             default_estimate=case['dflt'])


def run(case, wbs=None):
    """Build and schedule.  Returns Out with .error set when calc raised."""
    env.set_clock(dt(case['N']))
    o = Out()
    o.case = case
    o.m = Model(case['spec'])
    if wbs is None:
        o.wbs, o.objs, o.ext = specs.build(case['spec'], case.get('wbs_kwargs'))
    else:
        o.wbs, o.objs, o.ext = wbs
    handles = []
    o.resources_in = specs.make_resources(case['res'], handles, wrap=case.get('wrap') or 0)
    o.sched = make_scheduler(case, o.resources_in)
    o.error = None
    if case.get('reuse'):
        warm_up(case, o, handles)
    try:
        o.result = o.sched.calc(o.wbs)
    except Exception as e:       # classified by the caller (C14)
        o.error = e
        return o
    extract(o)
    return o


def warm_up(case, o, handles):
    """Object-reuse mode: before the judged run (a) another scheduler object with different calendars for every
    resource name has been used, and (b) the SAME scheduler and resource objects have already computed a
    different plan (other estimates, links dropped) while their dated calendars held other values (edited in
    place and restored afterwards).  Nothing of that may leak into the judged run."""
    import copy
    from pjplan import Resource, WeeklyCalendar
    spec2 = copy.deepcopy(case['spec'])
    for k, t in enumerate(spec2['tasks']):
        if t.get('end') is None:
            t['estimate'] = (t['estimate'] or 0) + 8 + k
            t['spent'] = None
    spec2['links'] = spec2['links'][1::2]
    spec2.pop('ext', None)
    try:
        w2, _, _ = specs.build(spec2)
    except Exception:
        return
    try:
        # a what-if on the default resources of an earlier plan: they are edited afterwards - a later scheduler that is
        # not given these names must still get fresh Monday-Friday 8-unit defaults
        r0 = make_scheduler(case, None).calc(w2)
        for r in r0.resources:
            r.calendar = WeeklyCalendar(days=[5, 6], units_per_day=10)
    except Exception:
        pass
    odd = [Resource(n, WeeklyCalendar(days=[1, 3, 5], units_per_day=3)) for n in specs.RES_NAMES]
    try:
        make_scheduler(case, odd).calc(w2)
    except Exception:
        pass
    saved = []
    for dc, orig in handles:
        if orig:
            dc.set_units({d: (0 if u else 6) for d, u in orig.items()})
            saved.append((dc, orig))
    try:
        o.sched.calc(w2)
    except Exception:
        pass
    for dc, orig in saved:
        dc.set_units(dict(orig))
    failed_run(case, o)


def failed_run(case, o):
    """the scheduler object has also been through a calc() that failed in the middle of its pass (after some leaves were
    placed): (a) a plan whose dependencies close a circle through the hierarchy, (b) a user-defined resource that raises"""
    from pjplan import Task, WBS
    names = [t['resource'] for t in case['spec']['tasks']][:3] or [None]
    w3 = WBS()
    for k, rn in enumerate(names):
        w3.roots.append(Task(900 + k, 'busy', resource=rn, estimate=11 + k))
    s1, s2 = Task(910, 's1'), Task(911, 's2')
    a, b = Task(912, 'a', resource=names[0], estimate=3), Task(913, 'b', resource=names[0], estimate=3)
    w3.roots.append(s1); w3.roots.append(s2)
    s1.children.append(a); s2.children.append(b)
    if case['dir'] == 'fwd':
        s2.predecessors.append(s1); a.predecessors.append(b)
    else:
        s1.successors.append(s2); b.successors.append(a)
    try:
        o.sched.calc(w3)
    except Exception:
        pass
    crews = [r for r in o.resources_in if hasattr(r, 'boom')]
    if crews:
        w4 = WBS()
        for k, rn in enumerate(names):
            w4.roots.append(Task(920 + k, 'busy', resource=rn, estimate=13 + k))
        for r in crews:
            r.boom = 7
        try:
            o.sched.calc(w4)
        except Exception:
            pass
        for r in crews:
            r.boom = None


def extract(o):
    s = o.result
    o.sw = s.schedule
    o.res_by_name = {}
    for r in s.resources:
        o.res_by_name.setdefault(r.name, r)
    o.raw_rows = s.resource_usage.rows()
    o.rows = [(r.resource.name, plain(r.date), r.task.id, r.units) for r in o.raw_rows]
    by_id = {}
    for t in o.sw.tasks:
        by_id.setdefault(t.id, t)
    o.tasks = by_id
    o.T = {}
    for i in o.m.order:
        t = by_id.get(i)
        if t is None:
            o.T[i] = None
        else:
            o.T[i] = dict(start=plain(t.start), end=plain(t.end), estimate=t.estimate, spent=t.spent)
    o.rows_by_task = collections.defaultdict(list)
    o.used = collections.defaultdict(F)
    o.used_task = collections.defaultdict(F)
    for rn, d, tid, u in o.rows:
        o.rows_by_task[tid].append((rn, d, u))
        o.used[(rn, d)] += F(u)
        o.used_task[(rn, d, tid)] += F(u)


def raw_capacity(r, d):
    """capacity of day d as the resource's CALENDAR gives it (a Resource may only translate None to 0)"""
    r = getattr(r, 'inner', r)            # harness' own IResource subclass (specs.make_resources(wrap=True))
    cal = getattr(r, 'calendar', None)
    if cal is not None:
        u = cal.get_available_units(d)
        return 0 if u is None else u
    return r.get_available_units(d)


def cap(o, rn, d):
    r = o.res_by_name.get(rn)
    if r is None:
        return F(0)
    return F(raw_capacity(r, d))


def complete(o):
    """every task of the spec is present in the result with both dates (precondition of the other oracles)"""
    return all(o.T[i] is not None and o.T[i]['start'] is not None and o.T[i]['end'] is not None for i in o.m.order)


def workf(t, dflt):
    est = t['estimate'] if t['estimate'] is not None else dflt
    sp = t['spent'] if t['spent'] is not None else 0
    return max(est - sp, 0)


# ------------------------------------------------------------------------------ oracles

def release_day(o, i):
    """latest of project start, clock, min_start and prerequisite ends — as calendar days"""
    m, c = o.m, o.case
    t = m.t[i]
    b = [day(dt(c['P'])), day(dt(c['N']))]
    if t.get('min_start'):
        b.append(day(dt(t['min_start'])))
    for q in m.prereq_leaves(i):
        b.append(day(o.T[q]['end']))
    for e in ext_prereq_ends(o, i):
        b.append(day(e))
    return max(b)


def ext_prereq_ends(o, i):
    out = []
    chain = [i] + o.m.ancestors(i)
    for e in o.case['spec'].get('ext', []):
        if e.get('end') and any(v in chain for v in e.get('succ', [])):
            out.append(dt(e['end']))
    return out


def c02(o, v):
    """forward: never before prerequisites; milestone placement"""
    m, c = o.m, o.case
    P = dt(c['P'])
    for i in m.order:
        t = m.t[i]
        if not m.is_leaf(i):
            continue
        pl = m.prereq_leaves(i)
        T = o.T[i]
        if t['milestone']:
            ends = [o.T[q]['end'] for q in pl] + ext_prereq_ends(o, i)
            if ends:
                ok = (max(ends), max(ends + [P]))
            else:
                ok = (P,)
            if not (T['start'] == T['end'] and any(abs(T['start'] - x) <= TOL for x in ok)):
                v('C02:milestone-not-at-latest-prerequisite-end' if ends else 'C02:milestone-without-prerequisites-not-at-project-start',
                  dict(task=i, start=T['start'], end=T['end'], expected=list(ok)))
            continue
        if t['start'] is not None:
            continue
        rel = release_day(o, i)
        if day(T['start']) < rel:
            which = 'inherited' if any(day(o.T[q]['end']) > day(T['start']) for q in m.inherited_prereq_leaves(i)) else \
                    'own' if any(day(o.T[q]['end']) > day(T['start']) for q in m.own_prereq_leaves(i)) else 'start/clock/min_start'
            v('C02:start-before-release-day(%s)' % which, dict(task=i, start=T['start'], release=rel))
        for rn, d, u in o.rows_by_task.get(i, []):
            if d < rel:
                v('C02:work-reserved-before-release-day', dict(task=i, row=d, release=rel))
                break


def c03(o, v):
    m, c = o.m, o.case
    for r in o.raw_rows:
        d = plain(r.date)
        if not r.units > 0:
            v('C03:row-not-positive', dict(task=r.task.id, units=r.units))
        if r.resource.name != r.task.resource:
            v('C03:row-on-wrong-resource', dict(task=r.task.id, resource=r.resource.name))
        if d != day(d):
            v('C03:row-date-not-a-day', dict(task=r.task.id, date=d))
        if not raw_capacity(r.resource, d) > 0:
            v('C03:row-on-day-without-capacity', dict(task=r.task.id, date=d))
        if o.res_by_name.get(r.resource.name) is not r.resource:
            v('C03:row-resource-not-in-result', dict(resource=r.resource.name))
    if c['balance']:
        for (rn, d), u in o.used.items():
            if u > cap(o, rn, d) + EPS:
                v('C03:over-allocation', dict(resource=rn, date=d, booked=float(u), capacity=float(cap(o, rn, d))))
    else:
        for (rn, d, tid), u in o.used_task.items():
            if u > cap(o, rn, d) + EPS:
                v('C03:over-allocation-per-task', dict(resource=rn, date=d, task=tid, booked=float(u)))
    # report agreement
    rep = o.result.resource_usage
    probes = list(o.used.keys())[:40]
    for (rn, d) in probes:
        got = rep.reserved(o.res_by_name[rn], d)
        if abs(F(got) - o.used[(rn, d)]) > EPS:
            v('C03:reserved()-disagrees-with-rows', dict(resource=rn, date=d, got=got, rows=float(o.used[(rn, d)])))
    for r in o.result.resources[:3]:
        for d in (datetime(1999, 1, 1), BASE + timedelta(days=2000)):
            if rep.reserved(r, d) != 0:
                v('C03:reserved()-nonzero-on-unused-day', dict(resource=r.name, date=d))
    if o.raw_rows:
        r0 = o.raw_rows[len(o.raw_rows) // 2]
        flt = rep.rows(lambda r: r.task.id == r0.task.id)
        exp = [r for r in o.raw_rows if r.task.id == r0.task.id]
        if [(r.resource.name, r.date, r.task.id, r.units) for r in flt] != [(r.resource.name, r.date, r.task.id, r.units) for r in exp]:
            v('C03:filtered-rows-disagree', dict(task=r0.task.id))
        again = rep.rows()
        if [(r.resource.name, r.date, r.task.id, r.units) for r in again] != [(x[0], x[1], x[2], x[3]) for x in o.rows]:
            v('C03:rows()-not-repeatable', None)
    # the resources the caller supplied are the ones used (same objects), in the result list and in the rows
    given = {r.name: r for r in o.resources_in}
    for rn, r in given.items():
        if o.res_by_name.get(rn) is not r:
            v('C03:supplied-resource-replaced-in-result', dict(resource=rn))
    for r in o.raw_rows:
        if r.resource.name in given and given[r.resource.name] is not r.resource:
            v('C03:row-booked-on-a-different-resource-object', dict(resource=r.resource.name))
            break
    # every named resource present; defaults are Mon-Fri 8
    supplied = {specs.res_name(k) for k in c['res']}
    for i in m.order:
        rn = m.t[i]['resource']
        r = o.res_by_name.get(rn)
        if r is None:
            v('C03:resource-missing-from-result', dict(resource=rn))
        elif rn not in supplied:
            for k in range(14):
                d = BASE + timedelta(days=k)
                want = 8 if d.weekday() < 5 else 0
                if r.get_available_units(d) != want:
                    v('C03:default-resource-not-mon-fri-8', dict(resource=rn, date=d, got=r.get_available_units(d)))
                    break


def c04(o, v):
    m, c = o.m, o.case
    fwd = c['dir'] == 'fwd'
    N = dt(c['N'])
    for i in m.order:
        t = m.t[i]
        T = o.T[i]
        rws = o.rows_by_task.get(i, [])
        if not m.is_leaf(i) or t['milestone'] or (fwd and t['end'] is not None):
            if rws:
                v('C04:work-reserved-for-%s' % ('summary' if not m.is_leaf(i) else 'milestone' if t['milestone'] else 'completed-task'),
                  dict(task=i))
            if fwd and m.is_leaf(i) and not t['milestone']:
                if t['start'] is not None and T['start'] != dt(t['start']):
                    v('C04:fixed-start-changed', dict(task=i))
                if t['end'] is not None and T['end'] != dt(t['end']):
                    v('C04:fixed-end-changed', dict(task=i))
            continue
        w = workf(t, c['dflt'])
        tot = sum((F(u) for _, _, u in rws), F(0))
        if abs(tot - F(w)) > EPS:
            v('C04:reserved-differs-from-remaining-work', dict(task=i, reserved=float(tot), work=w))
        ds = [d for _, d, _ in rws]
        if len(set(ds)) != len(ds):
            v('C04:two-rows-on-one-day', dict(task=i))
        for d in ds:
            if not (day(T['start']) <= d < T['end']):
                v('C04:row-outside-start-day..end', dict(task=i, row=d, start=T['start'], end=T['end']))
                break
            if fwd and d < day(N):
                v('C04:row-before-current-day', dict(task=i, row=d))
                break
        if fwd:
            if t['start'] is not None and T['start'] != dt(t['start']):
                v('C04:fixed-start-changed', dict(task=i))
            if ds:
                first, last = min(ds), max(ds)
                if t['start'] is None and day(T['start']) != first:
                    v('C04:start-not-on-first-reserved-day', dict(task=i, start=T['start'], first=first))
                if not (last < T['end'] <= last + DAY + TOL):
                    v('C04:end-not-within-24h-after-last-reserved-day', dict(task=i, end=T['end'], last=last))
        else:
            if ds:
                first = min(ds)
                if not (first - TOL <= T['start'] <= first + DAY + TOL):
                    v('C04:start-not-within-first-reserved-day', dict(task=i, start=T['start'], first=first,
                                                                       balance=c['balance']))


def c07(o, v):
    m = o.m
    for i in m.order:
        T = o.T[i]
        if T['start'] > T['end']:
            v('C07:start-after-end(%s)' % ('leaf' if m.is_leaf(i) else 'summary'), dict(task=i, start=T['start'], end=T['end']))
        if not m.is_leaf(i):
            ch = m.children[i]
            smin = min(o.T[x]['start'] for x in ch)
            emax = max(o.T[x]['end'] for x in ch)
            if T['start'] != smin:
                v('C07:summary-start-is-not-earliest-child-start', dict(task=i, start=T['start'], children=smin))
            if T['end'] != emax:
                v('C07:summary-end-is-not-latest-child-end', dict(task=i, end=T['end'], children=emax))
            es = sum(o.T[x]['estimate'] for x in ch)
            ss = sum(o.T[x]['spent'] for x in ch)
            if T['estimate'] is None or abs(T['estimate'] - es) > 1e-9:
                v('C07:summary-estimate-is-not-sum', dict(task=i, got=T['estimate'], children=es))
            if T['spent'] is None or abs(T['spent'] - ss) > 1e-9:
                v('C07:summary-spent-is-not-sum', dict(task=i, got=T['spent'], children=ss))
    if m.order:
        if plain(o.sw.start) != min(o.T[i]['start'] for i in m.order):
            v('C07:WBS.start-is-not-earliest-start', dict(got=o.sw.start))
        if plain(o.sw.end) != max(o.T[i]['end'] for i in m.order):
            v('C07:WBS.end-is-not-latest-end', dict(got=o.sw.end))
    else:
        if o.sw.start is not None or o.sw.end is not None:
            v('C07:empty-WBS-has-dates', None)


def c08(o, v, facts=None):
    """forward tightness, day-fraction formulas, WBS order"""
    m, c = o.m, o.case
    P, N = dt(c['P']), dt(c['N'])
    balance = c['balance']
    if balance:
        for i in m.order:
            t = m.t[i]
            if not m.is_leaf(i) or t['milestone'] or t['start'] is not None or t['end'] is not None:
                continue
            rel = release_day(o, i)
            T = o.T[i]
            if day(T['start']) < rel:
                continue        # C02's business
            rws = o.rows_by_task.get(i, [])
            lastwork = max(d for _, d, _ in rws) if rws else day(T['start'])
            rn = t['resource']
            d = rel
            while d < lastwork:
                if abs(o.used[(rn, d)] - cap(o, rn, d)) > EPS:
                    v('C08:idle-capacity-before-last-work-day', dict(task=i, day=d, release=rel, last=lastwork,
                                                                    booked=float(o.used[(rn, d)]), capacity=float(cap(o, rn, d))))
                    break
                d += DAY
            if facts is not None and rws:
                first = min(d for _, d, _ in rws)
                if cap(o, rn, rel) == 0:
                    facts['release-on-zero-capacity-day'] += 1
                if o.used[(rn, first)] - o.used_task[(rn, first, i)] > 0:
                    facts['starts-on-partially-booked-day'] += 1
    if balance and N <= P:
        booked = collections.defaultdict(F)
        before, after = {}, {}
        for rn, d, tid, u in o.rows:
            k = (rn, d)
            before.setdefault((tid, d), booked[k])
            booked[k] += F(u)
            after[(tid, d)] = booked[k]
        prefixes = collections.defaultdict(lambda: [F(0)])
        run_ = collections.defaultdict(F)
        for rn, d, tid, u in o.rows:
            run_[(rn, d)] += F(u)
            prefixes[(rn, d)].append(run_[(rn, d)])
        for i in m.order:
            t = m.t[i]
            if not m.is_leaf(i) or t['milestone'] or t['start'] is not None or t['end'] is not None:
                continue
            rws = o.rows_by_task.get(i, [])
            if not rws:
                # no work: "its start day" plays the part of the work day; when the task was placed is not
                # observable, so any prefix sum of that day's rows is accepted as "booked before the task"
                T = o.T[i]
                d0 = day(T['start'])
                c0 = cap(o, t['resource'], d0)
                ok = c0 > 0 and any(abs(T['start'] - (d0 + timedelta(hours=float(24 * pf / c0)))) <= TOL
                                    for pf in prefixes[(t['resource'], d0)] if pf <= c0)
                if not ok:
                    v('C08:zero-work-start-is-not-start-day-plus-a-booked-share', dict(task=i, start=T['start'], capacity=float(c0)))
                continue
            first, last = min(d for _, d, _ in rws), max(d for _, d, _ in rws)
            rn = t['resource']
            c1, c2 = cap(o, rn, first), cap(o, rn, last)
            if c1 <= 0 or c2 <= 0:
                continue        # C03's business
            T = o.T[i]
            es = first + timedelta(hours=float(24 * before[(i, first)] / c1))
            ee = last + timedelta(hours=float(24 * after[(i, last)] / c2))
            if abs(T['start'] - es) > TOL:
                v('C08:start-is-not-first-day-plus-booked-share', dict(task=i, start=T['start'], expected=es))
            ok_end = abs(T['end'] - ee) <= TOL or (N > ee and abs(T['end'] - N) <= TOL)
            if not ok_end:
                v('C08:end-is-not-last-day-plus-booked-share', dict(task=i, end=T['end'], expected=ee))
    # capacity handed out in WBS order among leaves that take part in no dependency
    pos = {}
    for idx, (rn, d, tid, u) in enumerate(o.rows):
        pos.setdefault(tid, idx)
    indep = [i for i in m.dfs() if m.is_leaf(i) and not m.t[i]['milestone'] and m.t[i]['start'] is None
             and m.t[i]['end'] is None and not m.in_any_dependency(i) and i in pos
             and not any(i in e.get('succ', []) or any(a in e.get('succ', []) for a in m.ancestors(i))
                         for e in c['spec'].get('ext', []))]
    seq = [pos[i] for i in indep]
    if seq != sorted(seq):
        v('C08:independent-leaves-not-served-in-WBS-order', dict(order=indep, first_rows=seq))


def c09(o, v, facts=None):
    m, c = o.m, o.case
    E = dt(c['P'])
    balance = c['balance']
    for i in m.order:
        if o.T[i]['end'] > E + TOL:
            v('C09:ends-after-project-end', dict(task=i, end=o.T[i]['end'], deadline=E))
    for u, w in c['spec']['links']:
        if o.T[u]['end'] > o.T[w]['start'] + TOL:
            v('C09:predecessor-ends-after-successor-starts', dict(pred=u, succ=w, end=o.T[u]['end'], start=o.T[w]['start']))
        else:
            bad = [(a, b) for a in m.leaves(u) for b in m.leaves(w) if o.T[a]['end'] > o.T[b]['start'] + TOL]
            if bad:
                v('C09:inherited-dependency-broken-between-leaves', dict(link=[u, w], leaves=bad[0]))
    if not balance:
        return
    booked = collections.defaultdict(F)
    snap_before_task = {}
    incl_first = {}
    for rn, d, tid, u in o.rows:
        if tid not in snap_before_task:
            snap_before_task[tid] = dict(booked)
        booked[(rn, d)] += F(u)
        incl_first[(tid, d)] = booked[(rn, d)]
    prefix = collections.defaultdict(lambda: [F(0)])
    run_ = collections.defaultdict(F)
    for rn, d, tid, u in o.rows:
        run_[(rn, d)] += F(u)
        prefix[(rn, d)].append(run_[(rn, d)])
    for i in m.order:
        t = m.t[i]
        if not m.is_leaf(i) or t['milestone']:
            continue
        rn = t['resource']
        T = o.T[i]
        succ_starts = [o.T[s]['start'] for s in m.due_successor_tasks(i)]
        due = min(succ_starts) if succ_starts else E
        if facts is not None and succ_starts and not m.succs[i]:
            facts['due-date-inherited'] += 1
        # an end exactly at a midnight closes the day before: that midnight's own day counts as lying after the end
        d = day(T['end']) if T['end'] == day(T['end']) else day(T['end']) + DAY
        while d < day(due):
            if abs(o.used[(rn, d)] - cap(o, rn, d)) > EPS:
                v('C09:not-late-packed(idle-day-between-end-and-due-date)', dict(task=i, day=d, end=T['end'], due=due))
                break
            d += DAY
        rws = o.rows_by_task.get(i, [])
        if rws:
            ds = sorted(d for _, d, _ in rws)
            d = ds[0] + DAY
            while d < ds[-1]:
                if abs(o.used[(rn, d)] - cap(o, rn, d)) > EPS:
                    v('C09:idle-day-inside-work-span', dict(task=i, day=d))
                    break
                d += DAY
            first = ds[0]
            c1 = cap(o, rn, first)
            if c1 > 0:
                es = first + DAY - timedelta(hours=float(24 * incl_first[(i, first)] / c1))
                if abs(T['start'] - es) > TOL:
                    v('C09:start-is-not-midnight-after-first-day-minus-booked-share', dict(task=i, start=T['start'], expected=es))
            bf = snap_before_task[i]
            cands = []
            for dd in (day(T['end']), day(T['end']) - DAY):
                cc = cap(o, rn, dd)
                if cc > 0:
                    cands.append(dd + DAY - timedelta(hours=float(24 * bf.get((rn, dd), F(0)) / cc)))
            if not any(abs(T['end'] - x) <= TOL for x in cands):
                v('C09:end-is-not-midnight-minus-share-booked-before', dict(task=i, end=T['end'], candidates=cands))
        else:
            # zero work: the booking prefix at placement time is not observable; accept any prefix of that day
            cands = []
            for dd in (day(T['end']), day(T['end']) - DAY):
                cc = cap(o, rn, dd)
                if cc > 0:
                    for pfx in prefix[(rn, dd)]:
                        cands.append(dd + DAY - timedelta(hours=float(24 * pfx / cc)))
            if cands and not any(abs(T['end'] - x) <= TOL for x in cands):
                v('C09:zero-work-end-is-not-a-booked-share-boundary', dict(task=i, end=T['end']))


def spec_labels(o):
    """classification of the generated case (measured generator distribution)"""
    m, c = o.m, o.case
    L = [c['dir'], 'balance' if c['balance'] else 'no-balance'] + (['objects-reused'] if c.get('reuse') else []) + (['custom-resource-class'] if c.get('wrap') else [])
    n = len(m.order)
    L.append('tasks:%s' % ('0' if n == 0 else '1-3' if n <= 3 else '4-6' if n <= 6 else '7+'))
    if m.order:
        L.append('depth:%d' % max(m.depth(i) for i in m.order))
    if any(not m.is_leaf(v_) for _, v_ in c['spec']['links']):
        L.append('link-into-summary')
    if any(not m.is_leaf(u) for u, _ in c['spec']['links']):
        L.append('link-from-summary')
    if any(m.inherited_prereq_leaves(i) for i in m.order if m.is_leaf(i)):
        L.append('inherited-prerequisite')
    if any(t['milestone'] for t in c['spec']['tasks']):
        L.append('milestone')
    if any(t['start'] is not None for t in c['spec']['tasks']):
        L.append('fixed-dates')
    if c['dir'] == 'fwd':
        P, N = dt(c['P']), dt(c['N'])
        L.append('clock:%s' % ('before' if N < P else 'equal' if N == P else 'after'))
        if P != day(P):
            L.append('start-not-midnight')
    for k, cs in c['res'].items():
        L.append('cal:' + cs[0])
    return L


def summary_sample(o):
    c = o.case
    s = dict(dir=c['dir'], P=c['P'], N=c['N'], balance=c['balance'], dflt=c['dflt'], res=c['res'],
             tasks=[[t['id'], t['parent'], t['resource'], t['estimate'], t['spent'], t['milestone'], t['start'], t['end'], t['min_start']]
                    for t in c['spec']['tasks']], links=c['spec']['links'])
    if getattr(o, 'T', None):
        s['result'] = {str(i): [o.T[i]['start'], o.T[i]['end']] for i in o.m.order if o.T.get(i)}
        s['rows'] = len(o.rows)
    return s
