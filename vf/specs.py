"""WBS / calendar / resource spec strategies, builders and the leaf-expansion model shared by the
scheduling, critical-path and rendering properties.  A spec is plain JSON-able data.
"""
from datetime import datetime, timedelta

from hypothesis import strategies as st

from .env import dt

BASE = datetime(2026, 1, 5)          # a Monday
DAY = timedelta(days=1)
RES_NAMES = [None, 'a', 'b', 'c']
EST_POOL = [0.1, 0.5, 2.5, 7.3, 12.25, 3.75, 0.2, 0.7]


def iso(d):
    return None if d is None else d.isoformat()


def day(d):
    return datetime(d.year, d.month, d.day)


# ------------------------------------------------------------------------------ model

class Model:
    """Leaf-expansion view of a spec, independent of schedule.py."""

    def __init__(self, spec):
        self.spec = spec
        self.t = {t['id']: t for t in spec['tasks']}
        self.order = [t['id'] for t in spec['tasks']]
        self.parent = {i: self.t[i]['parent'] for i in self.order}
        self.children = {i: [] for i in self.order}
        for i in self.order:
            p = self.parent[i]
            if p is not None:
                self.children[p].append(i)
        self.roots = [i for i in self.order if self.parent[i] is None]
        self.preds = {i: [] for i in self.order}
        self.succs = {i: [] for i in self.order}
        for u, v in spec['links']:
            self.preds[v].append(u)
            self.succs[u].append(v)

    def is_leaf(self, i):
        return not self.children[i]

    def leaves(self, i):
        if self.is_leaf(i):
            return [i]
        r = []
        for c in self.children[i]:
            r += self.leaves(c)
        return r

    def ancestors(self, i):
        r = []
        while self.parent[i] is not None:
            i = self.parent[i]
            r.append(i)
        return r

    def depth(self, i):
        return len(self.ancestors(i))

    def subtree(self, i):
        r = [i]
        for c in self.children[i]:
            r += self.subtree(c)
        return r

    def dfs(self):
        out = []
        for r in self.roots:
            out += self.subtree(r)
        return out

    def own_prereq_leaves(self, i):
        r = []
        for q in self.preds[i]:
            r += self.leaves(q)
        return r

    def inherited_prereq_leaves(self, i):
        r = []
        for x in self.ancestors(i):
            for q in self.preds[x]:
                r += self.leaves(q)
        return r

    def prereq_leaves(self, i):
        return self.own_prereq_leaves(i) + self.inherited_prereq_leaves(i)

    def prereq_tasks(self, i):
        """declared predecessor tasks (not expanded) of i and of its ancestors"""
        r = []
        for x in [i] + self.ancestors(i):
            r += self.preds[x]
        return r

    def due_successor_tasks(self, i):
        r = []
        for x in [i] + self.ancestors(i):
            r += self.succs[x]
        return r

    def leaf_graph(self):
        adj = {i: set() for i in self.order if self.is_leaf(i)}
        for u, v in self.spec['links']:
            for a in self.leaves(u):
                for b in self.leaves(v):
                    adj[a].add(b)
        return adj

    def leaf_acyclic(self):
        adj = self.leaf_graph()
        color = {}
        for s in adj:
            if s in color:
                continue
            stack = [(s, iter(sorted(adj[s], key=repr)))]
            color[s] = 1
            while stack:
                n, it = stack[-1]
                for y in it:
                    if color.get(y) == 1:
                        return False
                    if y not in color:
                        color[y] = 1
                        stack.append((y, iter(sorted(adj[y], key=repr))))
                        break
                else:
                    color[n] = 2
                    stack.pop()
        return True

    def in_any_dependency(self, i):
        """does leaf i take part in a dependency (own, inherited, or as a predecessor)?"""
        for x in [i] + self.ancestors(i):
            if self.preds[x] or self.succs[x]:
                return True
        return False


# ------------------------------------------------------------------------------ WBS specs

@st.composite
def wbs_spec(draw, max_tasks=8, min_tasks=0, hier_cycles=False, min_start=True, milestones=True,
             summary_links=True, est_pool=None, names=None, palette_max=3, min_start_pool=None, min_start_rate=5, lookalike_ids=False,
             summary_milestones=False):
    n = draw(st.integers(min_tasks, max_tasks))
    ids = draw(st.permutations(list(range(1, n + 1))))
    tasks = []
    parent = {}
    deep = draw(st.booleans())
    palette = draw(st.lists(st.sampled_from(RES_NAMES), min_size=1, max_size=palette_max))
    for k, tid in enumerate(ids):
        if k == 0:
            p = None
        elif deep:
            p = draw(st.one_of(st.none(), st.sampled_from(ids[:k]), st.sampled_from(ids[max(0, k - 2):k])))
        else:
            p = draw(st.one_of(st.none(), st.sampled_from(ids[:k])))
        parent[tid] = p
        est = draw(st.one_of(st.none(), st.integers(0, 30), st.integers(1, 9), st.integers(1, 9), st.integers(8, 20), st.integers(25, 90),
                             st.sampled_from(est_pool or EST_POOL), st.sampled_from(est_pool or EST_POOL)))
        spent = draw(st.one_of(st.none(), st.none(), st.none(), st.integers(0, 30), st.integers(0, 3), st.sampled_from([0.5, 0.1, 3.75])))
        tasks.append(dict(id=tid, name='T%d' % tid, parent=p, resource=draw(st.sampled_from(palette)),
                          estimate=est, spent=spent, milestone=False, start=None, end=None, min_start=None))
    children = {t: [c for c in ids if parent[c] == t] for t in ids}

    def anc(t):
        r = set()
        while parent[t] is not None:
            t = parent[t]
            r.add(t)
        return r
    ancs = {t: anc(t) for t in ids}
    for t in tasks:
        if milestones and not children[t['id']] and draw(st.integers(0, 9)) == 0:
            t['milestone'] = True
        elif summary_milestones and children[t['id']] and draw(st.integers(0, 11)) == 0:
            t['milestone'] = True       # the flag on a task with children: it stays a summary task
    rank = {t: i for i, t in enumerate(draw(st.permutations(list(ids))))}
    links = []
    if n >= 2:
        summaries = [t for t in ids if children[t]]
        pair = st.tuples(st.sampled_from(list(ids)), st.sampled_from(list(ids)))
        if summaries and summary_links:
            pair = st.one_of(pair, pair, st.tuples(st.sampled_from(summaries), st.sampled_from(list(ids))),
                             st.tuples(st.sampled_from(list(ids)), st.sampled_from(summaries)))
        pairs = draw(st.lists(pair, max_size=2 * n))
        if summaries and summary_links and draw(st.booleans()):
            # steer: a summary gets a predecessor, one of its descendants gets another one (own + inherited prerequisites)
            S = draw(st.sampled_from(summaries))
            inside = [t for t in ids if S in ancs[t]]
            outside = [t for t in ids if t != S and t not in inside and t not in ancs[S]]
            if inside and outside:
                pairs = pairs + [(draw(st.sampled_from(outside)), S), (draw(st.sampled_from(outside)), draw(st.sampled_from(inside)))]
        for u, v in pairs:
            if u == v or u in ancs[v] or v in ancs[u]:
                continue
            if not summary_links and (children[u] or children[v]):
                continue
            if rank[u] > rank[v]:
                u, v = v, u
            if [u, v] in links:
                continue
            links.append([u, v])
    spec = dict(tasks=tasks, links=links)
    if not hier_cycles:
        kept = []
        for l in links:
            spec['links'] = kept + [l]
            if Model(spec).leaf_acyclic():
                kept.append(l)
        spec['links'] = kept
    if min_start:
        for t in tasks:
            if draw(st.integers(0, min_start_rate)) == 0:
                dd = draw(st.sampled_from(min_start_pool)) if min_start_pool else draw(st.integers(-5, 20))
                t['min_start'] = iso(BASE + timedelta(days=dd, hours=draw(st.sampled_from([0, 0, 9, 17]))))
    if names is not None:
        for t in tasks:
            t['name'] = draw(names)
    if lookalike_ids and n >= 2 and draw(st.integers(0, 5)) == 0:
        # ids are told apart by ==: 7 and '7' (or 2 and 2.5, None ...) are different tasks of one WBS
        k = draw(st.integers(1, max(1, n // 2)))
        victims = draw(st.permutations(list(ids)))[:k]
        others = [i for i in ids if i not in victims]
        mp = {}
        for v, o in zip(victims, draw(st.permutations(others))[:k] if others else []):
            mp[v] = str(o)
        relabel(spec, mp)
    return spec


def relabel(spec, mp):
    f = lambda i: mp.get(i, i)
    for t in spec['tasks']:
        t['id'] = f(t['id'])
        t['parent'] = None if t['parent'] is None else f(t['parent'])
    spec['links'] = [[f(u), f(v)] for u, v in spec['links']]
    for e in spec.get('ext', []):
        e['succ'] = [f(x) for x in e['succ']]
        if e.get('pred'):
            e['pred'] = [f(x) for x in e['pred']]
    return spec


def build(spec, wbs_kwargs=None):
    """Build the WBS through the public API.  A spec the API refuses is a harness error."""
    from pjplan import Task, WBS
    w = WBS(**(wbs_kwargs or {}))
    objs = {}
    Calc = calc_task_class() if spec.get('subclass') else None
    for k, t in enumerate(spec['tasks']):
        kw = dict(resource=t.get('resource'), estimate=t.get('estimate'), spent=t.get('spent'),
                  milestone=t.get('milestone', False), start=dt(t.get('start')), end=dt(t.get('end')),
                  min_start=dt(t.get('min_start')))
        kw.update(t.get('custom') or {})
        if Calc is not None and k % 2 == 0:
            # a user subclass of Task: `estimate` and `spent` are computed by the subclass (three-point estimate, work log);
            # the fields of the base class stay empty.  The public properties are what every reader must use.
            kw['points'] = None if kw['estimate'] is None else (kw['estimate'],) * 3
            kw['work_log'] = None if kw['spent'] is None else [kw['spent'], 0]
            kw['estimate'] = kw['spent'] = None
            o = Calc(t['id'], t.get('name') if 'name' in t else 'T%s' % t['id'], **kw)
            objs[t['id']] = o
            if t['parent'] is None:
                w.roots.append(o)
            else:
                objs[t['parent']].children.append(o)
            continue
        o = Task(t['id'], t.get('name') if 'name' in t else 'T%s' % t['id'], **kw)
        objs[t['id']] = o
        if t['parent'] is None:
            w.roots.append(o)
        else:
            objs[t['parent']].children.append(o)
    for u, v in spec['links']:
        objs[v].predecessors.append(objs[u])
    ext = {}
    for e in spec.get('ext', []):
        x = Task(e['id'], 'X%s' % e['id'], start=dt(e.get('start')), end=dt(e.get('end')), milestone=bool(e.get('milestone')))
        ext[e['id']] = x
        for a in e.get('pred', []):
            # the outside task itself waits for a member: a chain that leaves the WBS and comes back
            x.predecessors.append(objs[a])
        if e.get('ext_pred'):
            # ... and for an undated task of its own project
            q = Task('q%s' % e['id'], 'Q', estimate=5)
            x.predecessors.append(q)
            ext['q%s' % e['id']] = q
        if e.get('in_wbs'):
            # the outside predecessor is a member of another project (it keeps its WBS alive through Task.wbs)
            WBS().roots.append(x)
        for v in e.get('succ', []):
            objs[v].predecessors.append(x)
    return w, objs, ext


_CALC = {}


def calc_task_class():
    from pjplan import Task
    if 'cls' not in _CALC or _CALC['base'] is not Task:
        class CalcTask(Task):
            grade = 'B'         # class-level default; instances may override it

            @property
            def weight(self):
                return len(self.name or '')

            @property
            def estimate(self):
                p = self.__dict__.get('points')
                return None if not p else (p[0] + 4 * p[1] + p[2]) / 6 if p[0] != p[1] else p[0]

            @estimate.setter
            def estimate(self, v):
                pass

            @property
            def spent(self):
                w = self.__dict__.get('work_log')
                return None if w is None else sum(w)

            @spent.setter
            def spent(self, v):
                pass
        _CALC['cls'], _CALC['base'] = CalcTask, Task
    return _CALC['cls']


# ------------------------------------------------------------------------------ calendars / resources

@st.composite
def calendar_spec(draw, dead=False, backward=False, tod=False):
    kinds = ['default', 'weekly', 'weekly', 'weeklydict', 'direct_or_weekly', 'scaled', 'minus', 'bounded',
             'sum', 'fixed', 'div', 'applied', 'handover', 'vacation', 'divcal', 'applied_plain']
    if tod:
        # validity bounds with a time of day (crash-freedom only: "that day's capacity" has two values here)
        kinds = ['bounded_tod', 'fixed_tod']
    if dead:
        kinds = ['empty_direct', 'zero_weekly', 'zero_fixed', 'ended', 'late_start', 'zero_scaled', 'scarce_direct', 'scarce_direct']
    kind = draw(st.sampled_from(kinds))
    units = draw(st.sampled_from([8, 8, 6, 1, 0.5, 2.5, 7.5, 24, 40, 100]))
    days = sorted(draw(st.sets(st.integers(0, 6), min_size=1)))
    if kind == 'bounded_tod':
        return ['bounded_tod', days, units, draw(st.integers(-5, 38)), draw(st.sampled_from([9, 13, 23])), draw(st.one_of(st.none(), st.integers(5, 45)))]
    if kind == 'fixed_tod':
        return ['fixed_tod', units, draw(st.integers(-5, 38)), draw(st.sampled_from([9, 13, 23])), draw(st.one_of(st.none(), st.integers(5, 45)))]
    if kind == 'default':
        return ['default']
    if kind == 'handover':
        # one calendar valid up to a midnight (the way the README writes bounds: end=datetime(y, m, d)), another one afterwards:
        # the bound lies inside the planning range (forward: days 1-15, backward: days 15-40)
        k = draw(st.integers(15, 40)) if backward else draw(st.integers(1, 15))
        return ['handover', days, units, k, sorted(draw(st.sets(st.integers(0, 6), min_size=1))), draw(st.sampled_from([8, 4, 2.5, 24]))]
    if kind == 'divcal':
        # a calendar divided by a calendar (crew hours / shifts): the divisor is 0 on its days off
        return ['divcal', days, units, sorted(draw(st.sets(st.integers(0, 6), min_size=1))), draw(st.sampled_from([2, 4, 0.5]))]
    if kind == 'applied_plain':
        # apply() with a function that is written for numbers only (the declared signature): the dated calendar has days
        # without information
        return ['applied_plain', {str(draw(st.integers(-3, 25))): draw(st.sampled_from([2, 8, 0.5, 10])) for _ in range(draw(st.integers(1, 5)))},
                days, units, draw(st.sampled_from([1, 0.5, 2])), draw(st.booleans())]
    if kind == 'vacation':
        a = draw(st.integers(15, 38)) if backward else draw(st.integers(0, 12))
        return ['vacation', days, units, a, draw(st.integers(0, 4))]
    if kind == 'weekly':
        return ['weekly', days, units]
    if kind == 'weeklydict':
        d = {str(k): draw(st.sampled_from([0, 1, 4, 8, 0.5, 3.25])) for k in days}
        if not any(v > 0 for v in d.values()):
            d[str(days[0])] = 8
        return ['weeklydict', d]
    n_over = draw(st.integers(0, 5))
    overrides = {str(draw(st.integers(-3, 25))): draw(st.sampled_from([0, 0, 2, 8, 0.5, 10])) for _ in range(n_over)}
    if kind == 'direct_or_weekly':
        return ['direct_or_weekly', overrides, days, units]
    if kind == 'scaled':
        return ['scaled', days, units, draw(st.sampled_from([0.5, 2, 1.5]))]
    if kind == 'div':
        return ['div', days, units, draw(st.sampled_from([2, 0.5, 4]))]
    if kind == 'minus':
        return ['minus', days, units, overrides]
    if kind == 'sum':
        return ['sum', days, units, overrides]
    if kind == 'applied':
        return ['applied', days, units, overrides, draw(st.sampled_from([1, 0.5]))]
    if kind == 'fixed':
        return ['fixed', draw(st.sampled_from([8, 1, 0.5, 5]))]
    if kind == 'bounded':
        # valid from a midnight on (forward) / far enough back (backward); optionally an end far away
        if backward:
            return ['bounded', days, units, draw(st.integers(-400, -60)), None]
        return ['bounded', days, units, draw(st.integers(-3, 10)), draw(st.one_of(st.none(), st.integers(400, 500)))]
    # ---- calendars that never offer capacity where the scheduler looks (C14 only)
    if kind == 'empty_direct':
        return ['direct', {}]
    if kind == 'scarce_direct':
        # a few dated days only: some capacity, but possibly less than a task needs
        return ['direct', {str(draw(st.integers(3, 25))): draw(st.sampled_from([1, 4, 8, 0.5])) for _ in range(draw(st.integers(1, 3)))}]
    if kind == 'zero_weekly':
        return ['weekly', days, 0]
    if kind == 'zero_fixed':
        return ['fixed', 0]
    if kind == 'zero_scaled':
        return ['scaled', days, units, 0]
    if kind == 'ended':
        return ['bounded', days, units, -2000, -400]
    if kind == 'late_start':
        return ['bounded', days, units, 5000, None]
    raise AssertionError(kind)


def _direct(over, handles=None):
    from pjplan import DirectCalendar
    dc = DirectCalendar({BASE + timedelta(days=int(d)): u for d, u in over.items()})
    if handles is not None:
        handles.append((dc, {BASE + timedelta(days=int(d)): u for d, u in over.items()}))
    return dc


def make_calendar(cs, handles=None):
    from pjplan import WeeklyCalendar, FixedCalendar
    k = cs[0]
    if k == 'default':
        return None
    if k == 'weekly':
        return WeeklyCalendar(days=list(cs[1]), units_per_day=cs[2])
    if k == 'weeklydict':
        return WeeklyCalendar(units_per_day={int(a): b for a, b in cs[1].items()})
    if k == 'direct':
        return _direct(cs[1], handles)
    if k == 'direct_or_weekly':
        return _direct(cs[1], handles) | WeeklyCalendar(days=list(cs[2]), units_per_day=cs[3])
    if k == 'scaled':
        return WeeklyCalendar(days=list(cs[1]), units_per_day=cs[2]) * cs[3]
    if k == 'div':
        return WeeklyCalendar(days=list(cs[1]), units_per_day=cs[2]) / cs[3]
    if k == 'minus':
        return WeeklyCalendar(days=list(cs[1]), units_per_day=cs[2]) - _direct(cs[3], handles)
    if k == 'sum':
        return WeeklyCalendar(days=list(cs[1]), units_per_day=cs[2]) + _direct(cs[3], handles)
    if k == 'applied':
        f = cs[4]
        return (_direct(cs[3], handles) | WeeklyCalendar(days=list(cs[1]), units_per_day=cs[2])).apply(lambda u: None if u is None else u * f)
    if k == 'fixed':
        return FixedCalendar(cs[1])
    if k == 'handover':
        return WeeklyCalendar(days=list(cs[1]), units_per_day=cs[2], end=BASE + timedelta(days=cs[3])) | \
            WeeklyCalendar(days=list(cs[4]), units_per_day=cs[5], start=BASE + timedelta(days=cs[3] + 1))
    if k == 'divcal':
        return WeeklyCalendar(days=list(cs[1]), units_per_day=cs[2]) / WeeklyCalendar(days=list(cs[3]), units_per_day=cs[4])
    if k == 'applied_plain':
        f = cs[4]
        plain_fn = lambda u: u * f          # noqa: E731 - a function of a number, as apply() declares it
        if cs[5]:
            return _direct(cs[1], handles).apply(plain_fn) | WeeklyCalendar(days=list(cs[2]), units_per_day=cs[3])
        return (_direct(cs[1], handles) | WeeklyCalendar(days=list(cs[2]), units_per_day=cs[3])).apply(plain_fn)
    if k == 'vacation':
        return WeeklyCalendar(days=list(cs[1]), units_per_day=cs[2]) - \
            FixedCalendar(cs[2], BASE + timedelta(days=cs[3]), BASE + timedelta(days=cs[3] + cs[4]))
    if k == 'bounded_tod':
        start = BASE + timedelta(days=cs[3], hours=cs[4])
        end = None if cs[5] is None else BASE + timedelta(days=cs[3] + cs[5], hours=12)
        return WeeklyCalendar(start=start, end=end, days=list(cs[1]), units_per_day=cs[2])
    if k == 'fixed_tod':
        start = BASE + timedelta(days=cs[2], hours=cs[3])
        end = None if cs[4] is None else BASE + timedelta(days=cs[2] + cs[4], hours=12)
        return FixedCalendar(cs[1], start, end)
    if k == 'bounded':
        # bounds are day-aligned: start at a midnight, end one microsecond before a midnight, so that
        # "that day's capacity" has one value whatever time of day the scheduler asks for
        start = BASE + timedelta(days=cs[3])
        end = None if cs[4] is None else BASE + timedelta(days=cs[4] + 1) - timedelta(microseconds=1)
        return WeeklyCalendar(start=start, end=end, days=list(cs[1]), units_per_day=cs[2])
    raise AssertionError(cs)


def min_positive_capacity(cs):
    """smallest positive daily capacity the calendar can offer (cost bound for estimates)"""
    k = cs[0]
    if k == 'default':
        return 8
    if k in ('weekly', 'bounded'):
        return cs[2] or 8
    if k == 'weeklydict':
        v = [x for x in cs[1].values() if x > 0]
        return min(v) if v else 8
    if k == 'direct_or_weekly':
        v = [x for x in cs[1].values() if x > 0] + [cs[3]]
        return min(v)
    if k == 'scaled':
        return cs[2] * cs[3] or 8
    if k == 'div':
        return cs[2] / cs[3]
    if k == 'minus':
        v = [cs[2]] + [cs[2] - x for x in cs[3].values() if cs[2] - x > 0]
        return min(v)
    if k == 'sum':
        return cs[2]
    if k == 'applied':
        return min([x for x in cs[3].values() if x > 0] + [cs[2]]) * cs[4]
    if k == 'fixed':
        return cs[1] or 8
    if k == 'handover':
        return min(cs[2], cs[5]) or 8
    if k == 'divcal':
        return (cs[2] / cs[4]) or 8
    if k == 'applied_plain':
        return min([x for x in cs[1].values() if x > 0] + [cs[3]]) * cs[4] or 8
    if k == 'vacation':
        return cs[2] or 8
    return 8


@st.composite
def resources_spec(draw, dead_names=(), backward=False):
    names = draw(st.sets(st.sampled_from(RES_NAMES)))
    out = {}
    for n in sorted(names, key=str):
        out[str(n)] = draw(calendar_spec(dead=False, backward=backward))
    for n in dead_names:
        out[str(n)] = draw(calendar_spec(dead=True))
    return out


def res_name(key):
    return None if key == 'None' else key


def make_resources(rs, handles=None, wrap=False):
    from pjplan import Resource, IResource
    out = []
    for key, cs in rs.items():
        cal = make_calendar(cs, handles)
        n = res_name(key)
        r = Resource(n) if cal is None else Resource(n, cal)
        if wrap:
            # a user-defined resource class (public extension point): same capacities, but not a `Resource`.
            # wrap == 2: capacity depends on the task - the crew serves a task only from BASE + (task id mod 3) days on
            class Crew(IResource):
                def __init__(self, inner, taskdep):
                    super().__init__(inner.name)
                    self.inner = inner
                    self.taskdep = taskdep
                    self.boom = None        # countdown to a failure of the user's own code (sched.failed_run)

                def get_available_units(self, date, task=None):
                    if self.boom is not None:
                        self.boom -= 1
                        if self.boom < 0:
                            raise OSError('the crew roster is unreachable')
                    if self.taskdep and task is not None and isinstance(task.id, int) and \
                            datetime(date.year, date.month, date.day) < BASE + timedelta(days=3 + task.id % 3):
                        return 0
                    v = self.inner.get_available_units(date, None)
                    if self.taskdep == 3 and task is not None and v:
                        return v / 2        # wrap == 3: a single task is served by half the crew at most
                    return v
            r = Crew(r, wrap if wrap in (2, 3) else False)
        out.append(r)
    return out


def clamp_work(spec, rs, factor=50):
    """Bound work / smallest positive capacity (the reservation ledger is quadratic in booked days)."""
    for t in spec['tasks']:
        cs = rs.get(str(t['resource']))
        mc = min_positive_capacity(cs) if cs else 8
        lim = factor * mc
        if t['estimate'] is not None and t['estimate'] > lim:
            t['estimate'] = int(lim) if lim >= 1 else lim
